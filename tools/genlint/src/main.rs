//! genlint: structural dump of the `quote!` templates and of the sequence-building expressions of a
//! proc-macro crate (syn-based; nothing is executed).  Output: JSON on stdout.
use proc_macro2::{Delimiter, TokenStream, TokenTree};
use std::fmt::Write as _;
use syn::visit::Visit;

fn esc(s: &str) -> String {
    let mut o = String::with_capacity(s.len() + 2);
    o.push('"');
    for c in s.chars() {
        match c {
            '"' => o.push_str("\\\""),
            '\\' => o.push_str("\\\\"),
            '\n' => o.push_str("\\n"),
            '\t' => o.push_str("\\t"),
            '\r' => o.push_str("\\r"),
            c if (c as u32) < 0x20 => {
                let _ = write!(o, "\\u{:04x}", c as u32);
            }
            c => o.push(c),
        }
    }
    o.push('"');
    o
}

/// quote! token stream -> JSON tree
fn template(ts: TokenStream) -> String {
    let toks: Vec<TokenTree> = ts.into_iter().collect();
    let mut out = vec![];
    let mut i = 0;
    while i < toks.len() {
        match &toks[i] {
            TokenTree::Punct(p) if p.as_char() == '#' && i + 1 < toks.len() => {
                match &toks[i + 1] {
                    TokenTree::Ident(id) => {
                        out.push(format!("{{\"k\":\"var\",\"n\":{}}}", esc(&id.to_string())));
                        i += 2;
                        continue;
                    }
                    TokenTree::Group(g) if g.delimiter() == Delimiter::Parenthesis => {
                        // #( ... ) sep? *
                        let mut j = i + 2;
                        let mut sep = String::new();
                        let mut is_rep = false;
                        if j < toks.len() {
                            if let TokenTree::Punct(p2) = &toks[j] {
                                if p2.as_char() == '*' {
                                    is_rep = true;
                                    j += 1;
                                } else if j + 1 < toks.len() {
                                    if let TokenTree::Punct(p3) = &toks[j + 1] {
                                        if p3.as_char() == '*' {
                                            sep = p2.as_char().to_string();
                                            is_rep = true;
                                            j += 2;
                                        }
                                    }
                                }
                            }
                        }
                        if is_rep {
                            out.push(format!(
                                "{{\"k\":\"rep\",\"sep\":{},\"c\":{}}}",
                                esc(&sep),
                                template(g.stream())
                            ));
                            i = j;
                            continue;
                        }
                    }
                    _ => {}
                }
                out.push(format!("{{\"k\":\"tok\",\"t\":\"#\"}}"));
                i += 1;
            }
            TokenTree::Group(g) => {
                let d = match g.delimiter() {
                    Delimiter::Brace => "{",
                    Delimiter::Parenthesis => "(",
                    Delimiter::Bracket => "[",
                    Delimiter::None => "",
                };
                out.push(format!("{{\"k\":\"grp\",\"d\":{},\"c\":{}}}", esc(d), template(g.stream())));
                i += 1;
            }
            t => {
                out.push(format!("{{\"k\":\"tok\",\"t\":{}}}", esc(&t.to_string())));
                i += 1;
            }
        }
    }
    format!("[{}]", out.join(","))
}

/// method-chain view of an expression: base + [methods], with closure bodies of `map` described recursively
fn chain(e: &syn::Expr) -> String {
    let mut methods: Vec<String> = vec![];
    let mut cur = e;
    let mut amp = 0;
    loop {
        match cur {
            syn::Expr::Reference(r) => {
                amp += 1;
                cur = &r.expr;
            }
            syn::Expr::Paren(p) => cur = &p.expr,
            syn::Expr::Unary(u) => cur = &u.expr,
            syn::Expr::Try(t) => {
                methods.push("{\"m\":\"?\"}".to_string());
                cur = &t.expr;
            }
            syn::Expr::MethodCall(m) => {
                let mut extra = String::new();
                let name = m.method.to_string();
                if let Some(a0) = m.args.first() {
                    match a0 {
                        syn::Expr::Closure(c) => {
                            let pats: Vec<String> = c.inputs.iter().map(|p| tokens(p)).collect();
                            extra = format!(
                                ",\"closure\":{{\"params\":[{}],\"body\":{}}}",
                                pats.iter().map(|p| esc(p)).collect::<Vec<_>>().join(","),
                                chain(&c.body)
                            );
                        }
                        other => {
                            extra = format!(",\"arg\":{}", chain(other));
                        }
                    }
                }
                methods.push(format!("{{\"m\":{}{}}}", esc(&name), extra));
                cur = &m.receiver;
            }
            _ => break,
        }
    }
    methods.reverse();
    let (kind, base) = match cur {
        syn::Expr::Path(p) => ("path", tokens(p)),
        syn::Expr::Field(f) => ("field", tokens(f)),
        syn::Expr::Macro(m) => ("macro", m.mac.path.segments.last().map(|s| s.ident.to_string()).unwrap_or_default()),
        syn::Expr::Call(c) => {
            let args: Vec<String> = c.args.iter().map(|a| chain(a)).collect();
            return format!(
                "{{\"kind\":\"call\",\"base\":{},\"args\":[{}],\"amp\":{},\"chain\":[{}]}}",
                esc(&tokens(&c.func)),
                args.join(","),
                amp,
                methods.join(",")
            );
        }
        syn::Expr::Match(_) => ("match", String::new()),
        syn::Expr::Lit(l) => ("lit", tokens(l)),
        other => ("other", tokens(other).chars().take(60).collect()),
    };
    format!(
        "{{\"kind\":{},\"base\":{},\"amp\":{},\"chain\":[{}]}}",
        esc(kind),
        esc(&base),
        amp,
        methods.join(",")
    )
}

fn tokens<T: quote_free::ToTokensLike>(t: &T) -> String {
    t.to_token_string()
}

mod quote_free {
    // syn nodes implement quote::ToTokens; we only need their textual form
    pub trait ToTokensLike {
        fn to_token_string(&self) -> String;
    }
    impl<T: syn::__private::ToTokens> ToTokensLike for T {
        fn to_token_string(&self) -> String {
            let mut ts = syn::__private::TokenStream2::new();
            self.to_tokens(&mut ts);
            ts.to_string()
        }
    }
}

struct V {
    cur_fn: Vec<String>,
    templates: Vec<String>,
    lets: Vec<String>,
    struct_lits: Vec<String>,
    strings: Vec<String>,
    fns: Vec<String>,
    calls: Vec<String>,
}

impl<'ast> Visit<'ast> for V {
    fn visit_item_fn(&mut self, f: &'ast syn::ItemFn) {
        self.cur_fn.push(f.sig.ident.to_string());
        let params: Vec<String> = f.sig.inputs.iter().map(|a| tokens(a)).collect();
        let tail = f.block.stmts.last().and_then(|s| match s {
            syn::Stmt::Expr(e, None) => Some(chain(e)),
            _ => None,
        });
        self.fns.push(format!(
            "{{\"name\":{},\"params\":[{}],\"tail\":{}}}",
            esc(&f.sig.ident.to_string()),
            params.iter().map(|p| esc(p)).collect::<Vec<_>>().join(","),
            tail.unwrap_or("null".into())
        ));
        syn::visit::visit_item_fn(self, f);
        self.cur_fn.pop();
    }
    fn visit_impl_item_fn(&mut self, f: &'ast syn::ImplItemFn) {
        self.cur_fn.push(f.sig.ident.to_string());
        syn::visit::visit_impl_item_fn(self, f);
        self.cur_fn.pop();
    }
    fn visit_item_impl(&mut self, i: &'ast syn::ItemImpl) {
        let name = format!(
            "impl {} for {}",
            i.trait_.as_ref().map(|t| tokens(&t.1)).unwrap_or_default(),
            tokens(&*i.self_ty)
        );
        self.cur_fn.push(name);
        syn::visit::visit_item_impl(self, i);
        self.cur_fn.pop();
    }
    fn visit_local(&mut self, l: &'ast syn::Local) {
        if let Some(init) = &l.init {
            let pat = match &l.pat {
                syn::Pat::Type(t) => tokens(&*t.pat),
                p => tokens(p),
            };
            self.lets.push(format!(
                "{{\"fn\":{},\"pat\":{},\"expr\":{}}}",
                esc(&self.cur_fn.join("/")),
                esc(&pat),
                chain(&init.expr)
            ));
        }
        syn::visit::visit_local(self, l);
    }
    fn visit_expr_struct(&mut self, s: &'ast syn::ExprStruct) {
        let fields: Vec<String> = s
            .fields
            .iter()
            .map(|f| format!("{}:{}", esc(&tokens(&f.member)), chain(&f.expr)))
            .collect();
        self.struct_lits.push(format!(
            "{{\"fn\":{},\"path\":{},\"fields\":{{{}}}}}",
            esc(&self.cur_fn.join("/")),
            esc(&tokens(&s.path)),
            fields.join(",")
        ));
        syn::visit::visit_expr_struct(self, s);
    }
    fn visit_expr_method_call(&mut self, m: &'ast syn::ExprMethodCall) {
        let mut r = &*m.receiver;
        loop {
            match r {
                syn::Expr::Reference(x) => r = &x.expr,
                syn::Expr::Paren(x) => r = &x.expr,
                _ => break,
            }
        }
        if let syn::Expr::Path(p) = r {
            self.calls.push(format!(
                "{{\"fn\":{},\"recv\":{},\"method\":{}}}",
                esc(&self.cur_fn.join("/")),
                esc(&tokens(p)),
                esc(&m.method.to_string())
            ));
        }
        syn::visit::visit_expr_method_call(self, m);
    }
    fn visit_lit_str(&mut self, l: &'ast syn::LitStr) {
        self.strings.push(format!("{{\"fn\":{},\"s\":{}}}", esc(&self.cur_fn.join("/")), esc(&l.value())));
    }
    fn visit_macro(&mut self, m: &'ast syn::Macro) {
        let name = m.path.segments.last().map(|s| s.ident.to_string()).unwrap_or_default();
        if name == "quote" || name == "quote_spanned" {
            let line = m.path.segments.last().map(|s| s.ident.span().start().line).unwrap_or(0);
            self.templates.push(format!(
                "{{\"fn\":{},\"line\":{},\"tree\":{}}}",
                esc(&self.cur_fn.join("/")),
                line,
                template(m.tokens.clone())
            ));
            // nested quote! inside interpolated closures are plain tokens here; scan for them
            nested_quotes(&m.tokens, &self.cur_fn.join("/"), &mut self.templates);
        } else {
            // other macros (e.g. vec!, format!) may contain expressions with string literals
            if let Ok(args) = m.parse_body_with(syn::punctuated::Punctuated::<syn::Expr, syn::Token![,]>::parse_terminated) {
                for a in args.iter() {
                    self.visit_expr(a);
                }
            }
        }
    }
}

fn nested_quotes(_ts: &TokenStream, _f: &str, _out: &mut Vec<String>) {}

fn main() {
    let path = std::env::args().nth(1).expect("usage: genlint <file.rs>");
    let src = std::fs::read_to_string(&path).expect("read");
    let file = syn::parse_file(&src).expect("parse");
    let mut v = V {
        cur_fn: vec![],
        templates: vec![],
        lets: vec![],
        struct_lits: vec![],
        strings: vec![],
        fns: vec![],
        calls: vec![],
    };
    v.visit_file(&file);
    println!(
        "{{\"templates\":[{}],\n\"lets\":[{}],\n\"struct_lits\":[{}],\n\"strings\":[{}],\n\"fns\":[{}],\n\"calls\":[{}]}}",
        v.templates.join(",\n"),
        v.lets.join(",\n"),
        v.struct_lits.join(",\n"),
        v.strings.join(","),
        v.fns.join(","),
        v.calls.join(",")
    );
}
