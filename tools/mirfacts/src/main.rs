//! mirfacts: a rustc driver that behaves exactly like rustc and, for the crates named in
//! MIRFACTS_CRATES, additionally dumps `mir_built` of every body (plus ADT / impl tables) as JSON
//! into MIRFACTS_OUT/<crate>.json. Nothing of the analysed crate is executed.
#![feature(rustc_private)]
extern crate rustc_abi;
extern crate rustc_driver;
extern crate rustc_hir;
extern crate rustc_interface;
extern crate rustc_middle;
extern crate rustc_span;

use rustc_driver::{Callbacks, Compilation};
use rustc_hir::def::DefKind;
use rustc_hir::def_id::{DefId, LOCAL_CRATE};
use rustc_interface::interface::Compiler;
use rustc_middle::mir::PlaceTy;
use rustc_middle::mir::{
    self, AggregateKind, Body, Operand, Place, PlaceElem, Rvalue, StatementKind, TerminatorKind,
};
use rustc_middle::ty::print::{with_no_trimmed_paths, PrintTraitRefExt};
use rustc_middle::ty::{self, TyCtxt};
use rustc_span::Span;
use std::collections::BTreeMap;

fn esc(s: &str) -> String {
    let mut o = String::with_capacity(s.len() + 2);
    o.push('"');
    for c in s.chars() {
        match c {
            '"' => o.push_str("\\\""),
            '\\' => o.push_str("\\\\"),
            '\n' => o.push_str("\\n"),
            '\t' => o.push_str("\\t"),
            '\r' => o.push_str("\\r"),
            c if (c as u32) < 0x20 => o.push_str(&format!("\\u{:04x}", c as u32)),
            c => o.push(c),
        }
    }
    o.push('"');
    o
}

fn opt(s: Option<String>) -> String {
    s.map(|s| esc(&s)).unwrap_or_else(|| "null".into())
}

fn uid(tcx: TyCtxt<'_>, did: DefId) -> String {
    format!(
        "{}{}",
        tcx.crate_name(did.krate),
        tcx.def_path(did).to_string_no_crate_verbose()
    )
}

struct Cx<'a, 'tcx> {
    tcx: TyCtxt<'tcx>,
    owner: DefId,
    body: &'a Body<'tcx>,
    foreign_enums: &'a std::cell::RefCell<BTreeMap<String, DefId>>,
}

impl<'a, 'tcx> Cx<'a, 'tcx> {
    fn note_ty(&self, t: ty::Ty<'tcx>) {
        if let ty::Adt(def, _) = t.kind() {
            if def.is_enum() {
                let p = self.tcx.def_path_str(def.did());
                self.foreign_enums.borrow_mut().entry(p).or_insert(def.did());
            }
        }
    }
    fn field_name(&self, pty: PlaceTy<'tcx>, idx: usize) -> String {
        match pty.ty.kind() {
            ty::Adt(def, _) => {
                let v = match pty.variant_index {
                    Some(v) => v,
                    None => {
                        if def.is_enum() {
                            return format!("{idx}");
                        }
                        rustc_abi::FIRST_VARIANT
                    }
                };
                def.variant(v)
                    .fields
                    .iter()
                    .nth(idx)
                    .map(|f| f.name.to_string())
                    .unwrap_or(format!("{idx}"))
            }
            ty::Closure(did, _) | ty::Coroutine(did, _) | ty::CoroutineClosure(did, _) => {
                if let Some(ldid) = did.as_local() {
                    let caps = self.tcx.closure_captures(ldid);
                    if let Some(c) = caps.get(idx) {
                        return c.to_symbol().to_string();
                    }
                }
                format!("{idx}")
            }
            _ => format!("{idx}"),
        }
    }
    fn place_ty(&self, p: &Place<'tcx>) -> PlaceTy<'tcx> {
        let mut pty = PlaceTy::from_ty(self.body.local_decls[p.local].ty);
        for elem in p.projection.iter() {
            pty = pty.projection_ty(self.tcx, elem);
        }
        pty
    }
    fn place(&self, p: &Place<'tcx>) -> String {
        let mut pty = PlaceTy::from_ty(self.body.local_decls[p.local].ty);
        let mut parts = vec![];
        for elem in p.projection.iter() {
            match elem {
                PlaceElem::Field(f, _) => parts.push(format!(
                    "[\"f\",{},{}]",
                    f.as_usize(),
                    esc(&self.field_name(pty, f.as_usize()))
                )),
                PlaceElem::Deref => parts.push("[\"d\"]".to_string()),
                PlaceElem::Downcast(name, vi) => parts.push(format!(
                    "[\"dc\",{},{}]",
                    esc(&name.map(|s| s.to_string()).unwrap_or_default()),
                    vi.as_usize()
                )),
                PlaceElem::Index(l) => parts.push(format!("[\"i\",{}]", l.as_usize())),
                PlaceElem::ConstantIndex { .. } | PlaceElem::Subslice { .. } => {
                    parts.push("[\"i\",null]".to_string())
                }
                _ => parts.push("[\"o\"]".to_string()),
            }
            pty = pty.projection_ty(self.tcx, elem);
        }
        format!("{{\"l\":{},\"p\":[{}]}}", p.local.as_usize(), parts.join(","))
    }
    fn operand(&self, o: &Operand<'tcx>) -> String {
        match o {
            Operand::Copy(p) => format!("{{\"k\":\"copy\",\"pl\":{}}}", self.place(p)),
            Operand::Move(p) => format!("{{\"k\":\"move\",\"pl\":{}}}", self.place(p)),
            Operand::Constant(c) => {
                let ty = c.const_.ty();
                let mut extra = String::new();
                if let ty::FnDef(did, args) = ty.kind() {
                    extra = format!(
                        ",\"fn\":{},\"fn_id\":{},\"substs\":{}",
                        esc(&self.tcx.def_path_str(*did)),
                        esc(&uid(self.tcx, *did)),
                        esc(&format!("{:?}", args))
                    );
                }
                // named constants of struct type (e.g. a Duration bound) or of integer / bool type: record their evaluated value
                if let mir::Const::Unevaluated(..) = c.const_ {
                    if matches!(ty.kind(), ty::Adt(..)) || ty.is_integral() || ty.is_bool() {
                        let te = ty::TypingEnv::post_analysis(self.tcx, self.owner);
                        if let Ok(val) = c.const_.eval(self.tcx, te, c.span) {
                            let mut evs = format!("{:?}", val);
                            if let mir::ConstValue::Indirect { alloc_id, offset } = val {
                                if let Some(mem) = self.tcx.try_get_global_alloc(alloc_id).and_then(|g| match g {
                                    mir::interpret::GlobalAlloc::Memory(m) => Some(m),
                                    _ => None,
                                }) {
                                    let a = mem.inner();
                                    let start = offset.bytes_usize();
                                    let end = a.len().min(start + 64);
                                    let bytes = a.inspect_with_uninit_and_ptr_outside_interpreter(start..end);
                                    evs = format!("bytes:{}", bytes.iter().map(|b| format!("{:02x}", b)).collect::<String>());
                                }
                            }
                            extra = format!(",\"ev\":{}", esc(&evs));
                        }
                    }
                }
                format!(
                    "{{\"k\":\"const\",\"ty\":{},\"v\":{}{}}}",
                    esc(&format!("{}", ty)),
                    esc(&format!("{}", c.const_)),
                    extra
                )
            }
            _ => format!("{{\"k\":\"other\",\"s\":{}}}", esc(&format!("{:?}", o))),
        }
    }
    fn rvalue(&self, rv: &Rvalue<'tcx>) -> String {
        match rv {
            Rvalue::Use(o, ..) => format!("{{\"k\":\"use\",\"op\":{}}}", self.operand(o)),
            Rvalue::Ref(_, bk, p) => format!(
                "{{\"k\":\"ref\",\"mut\":{},\"pl\":{}}}",
                matches!(bk, mir::BorrowKind::Mut { .. }),
                self.place(p)
            ),
            Rvalue::RawPtr(_, p) => format!(
                "{{\"k\":\"ref\",\"raw\":true,\"mut\":true,\"pl\":{}}}",
                self.place(p)
            ),
            Rvalue::BinaryOp(op, ab) => {
                let lt = ab.0.ty(self.body, self.tcx);
                format!(
                    "{{\"k\":\"bin\",\"op\":{},\"a\":{},\"b\":{},\"aty\":{}}}",
                    esc(&format!("{:?}", op)),
                    self.operand(&ab.0),
                    self.operand(&ab.1),
                    esc(&format!("{}", lt))
                )
            }
            Rvalue::UnaryOp(op, a) => format!(
                "{{\"k\":\"un\",\"op\":{},\"a\":{}}}",
                esc(&format!("{:?}", op)),
                self.operand(a)
            ),
            Rvalue::Discriminant(p) => {
                let pty = self.place_ty(p);
                self.note_ty(pty.ty);
                format!(
                    "{{\"k\":\"discr\",\"pl\":{},\"ty\":{}}}",
                    self.place(p),
                    esc(&format!("{}", pty.ty))
                )
            }
            Rvalue::Cast(kind, o, ty) => format!(
                "{{\"k\":\"cast\",\"ck\":{},\"op\":{},\"ty\":{}}}",
                esc(&format!("{:?}", kind)),
                self.operand(o),
                esc(&format!("{}", ty))
            ),
            Rvalue::Aggregate(kind, ops) => {
                let opss: Vec<String> = ops.iter().map(|o| self.operand(o)).collect();
                let mut vidx = 0usize;
                let mut adt_id = None;
                let (adt, variant, fields) = match &**kind {
                    AggregateKind::Adt(did, vi, _, _, active) => {
                        let def = self.tcx.adt_def(*did);
                        let v = def.variant(*vi);
                        vidx = vi.as_usize();
                        adt_id = Some(uid(self.tcx, *did));
                        if def.is_enum() {
                            let p = self.tcx.def_path_str(*did);
                            self.foreign_enums.borrow_mut().entry(p).or_insert(*did);
                        }
                        let fields = match active {
                            Some(f) => vec![v.fields[*f].name.to_string()],
                            None => v.fields.iter().map(|f| f.name.to_string()).collect(),
                        };
                        (self.tcx.def_path_str(*did), Some(v.name.to_string()), fields)
                    }
                    AggregateKind::Tuple => ("tuple".to_string(), None, vec![]),
                    AggregateKind::Closure(did, _) => {
                        adt_id = Some(uid(self.tcx, *did));
                        (
                            "closure".to_string(),
                            None,
                            did.as_local()
                                .map(|l| {
                                    self.tcx
                                        .closure_captures(l)
                                        .iter()
                                        .map(|c| c.to_symbol().to_string())
                                        .collect()
                                })
                                .unwrap_or_default(),
                        )
                    }
                    AggregateKind::Coroutine(did, _) => {
                        adt_id = Some(uid(self.tcx, *did));
                        (
                            "coroutine".to_string(),
                            None,
                            did.as_local()
                                .map(|l| {
                                    self.tcx
                                        .closure_captures(l)
                                        .iter()
                                        .map(|c| c.to_symbol().to_string())
                                        .collect()
                                })
                                .unwrap_or_default(),
                        )
                    }
                    AggregateKind::CoroutineClosure(did, _) => {
                        adt_id = Some(uid(self.tcx, *did));
                        ("coroutine_closure".to_string(), None, vec![])
                    }
                    AggregateKind::Array(_) => ("array".to_string(), None, vec![]),
                    _ => ("other".to_string(), None, vec![]),
                };
                format!(
                    "{{\"k\":\"agg\",\"vidx\":{},\"adt\":{},\"adt_id\":{},\"variant\":{},\"fields\":[{}],\"ops\":[{}]}}",
                    vidx,
                    esc(&adt),
                    opt(adt_id),
                    variant.map(|v| esc(&v)).unwrap_or("null".into()),
                    fields.iter().map(|f| esc(f)).collect::<Vec<_>>().join(","),
                    opss.join(",")
                )
            }
            _ => format!("{{\"k\":\"other\",\"s\":{}}}", esc(&format!("{:?}", rv))),
        }
    }
    fn span(&self, sp: Span) -> String {
        let sm = self.tcx.sess.source_map();
        let mut expn = String::new();
        let mut s = sp;
        let mut names = vec![];
        let mut n = 0;
        while s.from_expansion() && n < 32 {
            let ed = s.ctxt().outer_expn_data();
            if let Some(did) = ed.macro_def_id {
                names.push(self.tcx.def_path_str(did));
            } else {
                names.push(format!("{:?}", ed.kind));
            }
            s = ed.call_site;
            n += 1;
        }
        if !names.is_empty() {
            expn = format!(
                ",\"expn\":[{}]",
                names.iter().map(|n| esc(n)).collect::<Vec<_>>().join(",")
            );
        }
        let loc = sm.lookup_char_pos(s.lo());
        format!(
            "\"file\":{},\"line\":{}{}",
            esc(&format!("{}", loc.file.name.prefer_local_unconditionally())),
            loc.line,
            expn
        )
    }
}

struct Cb;
impl Callbacks for Cb {
    fn after_expansion<'tcx>(&mut self, _c: &Compiler, tcx: TyCtxt<'tcx>) -> Compilation {
        let krate = tcx.crate_name(LOCAL_CRATE).to_string();
        let want = std::env::var("MIRFACTS_CRATES").unwrap_or_default();
        if !want.split(',').any(|c| c == krate) {
            return Compilation::Continue;
        }
        // cfg(test) builds are never analysed
        if tcx.sess.opts.test {
            return Compilation::Continue;
        }
        with_no_trimmed_paths!(dump(tcx, &krate));
        Compilation::Continue
    }
}

fn dump<'tcx>(tcx: TyCtxt<'tcx>, krate: &str) {
    let mut fns = vec![];
    // Pass 1: clone every built body before anything can trigger borrowck (which steals mir_built).
    let mut bodies = vec![];
    // Type-checking a caller of an `async fn` / `-> impl Trait` function asks for the hidden type, which borrow-checks that function and thereby steals its
    // mir_built: such functions are cloned first; if a body was stolen all the same, the next stage (mir_promoted, still before any optimisation) stands in.
    let mut owners: Vec<_> = tcx
        .hir_body_owners()
        .filter(|d| matches!(tcx.def_kind(*d), DefKind::Fn | DefKind::AssocFn | DefKind::Closure))
        .collect();
    owners.sort_by_key(|d| {
        let k = tcx.def_kind(*d);
        let opaque = matches!(k, DefKind::Fn | DefKind::AssocFn)
            && (tcx.asyncness(*d).is_async()
                || format!("{:?}", tcx.fn_sig(d.to_def_id()).skip_binder().output()).contains("Opaque"));
        if opaque { 0 } else { 1 }
    });
    for def in owners {
        let kind = tcx.def_kind(def);
        let built = tcx.mir_built(def);
        let body: Body<'tcx> = if built.is_stolen() {
            let promoted = &tcx.mir_promoted(def).0;
            if promoted.is_stolen() {
                panic!("mirfacts: neither mir_built nor mir_promoted of {:?} is available", def);
            }
            promoted.borrow().clone()
        } else {
            built.borrow().clone()
        };
        bodies.push((def, kind, body));
    }
    let foreign_enums = std::cell::RefCell::new(BTreeMap::new());
    let (mut nblocks, mut ncalls) = (0usize, 0usize);
    for (def, kind, body) in bodies.iter() {
        let (def, kind) = (*def, *kind);
        let did = def.to_def_id();
        let path = tcx.def_path_str(did);
        let cx = Cx {
            tcx,
            owner: did,
            body,
            foreign_enums: &foreign_enums,
        };
        let mut names = vec![None; body.local_decls.len()];
        for vdi in &body.var_debug_info {
            if let mir::VarDebugInfoContents::Place(p) = &vdi.value {
                if p.projection.is_empty() {
                    names[p.local.as_usize()] = Some(vdi.name.to_string());
                }
            }
        }
        let locals: Vec<String> = body
            .local_decls
            .iter_enumerated()
            .map(|(l, d)| {
                format!(
                    "{{\"ty\":{},\"name\":{}}}",
                    esc(&format!("{}", d.ty)),
                    names[l.as_usize()]
                        .as_ref()
                        .map(|n| esc(n))
                        .unwrap_or("null".into())
                )
            })
            .collect();
        let mut blocks = vec![];
        for (_bb, data) in body.basic_blocks.iter_enumerated() {
            nblocks += 1;
            let mut stmts = vec![];
            for st in &data.statements {
                if let StatementKind::Assign(b) = &st.kind {
                    stmts.push(format!(
                        "{{\"k\":\"assign\",\"pl\":{},\"rv\":{},{}}}",
                        cx.place(&b.0),
                        cx.rvalue(&b.1),
                        cx.span(st.source_info.span)
                    ));
                }
            }
            let term = data.terminator();
            let sp = cx.span(term.source_info.span);
            let t = match &term.kind {
                TerminatorKind::Call {
                    func,
                    args,
                    destination,
                    target,
                    ..
                } => {
                    ncalls += 1;
                    let (callee, callee_id, substs, selfty, resolved, resolved_id, trait_of) =
                        match func.const_fn_def() {
                            Some((cdid, ga)) => {
                                let trait_of = tcx.trait_of_assoc(cdid).map(|t| tcx.def_path_str(t));
                                let selfty = if trait_of.is_some()
                                    || tcx.impl_of_assoc(cdid).is_some()
                                {
                                    ga.types().next().map(|t| format!("{}", t))
                                } else {
                                    None
                                };
                                let te = ty::TypingEnv::post_analysis(tcx, did);
                                let (resolved, resolved_id) =
                                    match ty::Instance::try_resolve(tcx, te, cdid, ga) {
                                        Ok(Some(inst)) => (
                                            Some(tcx.def_path_str(inst.def_id())),
                                            Some(uid(tcx, inst.def_id())),
                                        ),
                                        _ => (None, None),
                                    };
                                (
                                    esc(&tcx.def_path_str(cdid)),
                                    esc(&uid(tcx, cdid)),
                                    esc(&format!("{:?}", ga)),
                                    selfty,
                                    resolved,
                                    resolved_id,
                                    trait_of,
                                )
                            }
                            None => (
                                "null".to_string(),
                                "null".to_string(),
                                "null".to_string(),
                                None,
                                None,
                                None,
                                None,
                            ),
                        };
                    let fop = cx.operand(func);
                    let a: Vec<String> = args.iter().map(|a| cx.operand(&a.node)).collect();
                    let atys: Vec<String> = args
                        .iter()
                        .map(|a| esc(&format!("{}", a.node.ty(body, tcx))))
                        .collect();
                    format!(
                        "{{\"k\":\"call\",\"callee\":{},\"callee_id\":{},\"substs\":{},\"self_ty\":{},\"trait\":{},\"resolved\":{},\"resolved_id\":{},\"func\":{},\"args\":[{}],\"arg_tys\":[{}],\"dest\":{},\"target\":{},{}}}",
                        callee,
                        callee_id,
                        substs,
                        opt(selfty),
                        opt(trait_of),
                        opt(resolved),
                        opt(resolved_id),
                        fop,
                        a.join(","),
                        atys.join(","),
                        cx.place(destination),
                        target
                            .map(|t| t.as_usize().to_string())
                            .unwrap_or("null".into()),
                        sp
                    )
                }
                TerminatorKind::SwitchInt { discr, targets } => {
                    let ts: Vec<String> = targets
                        .iter()
                        .map(|(v, t)| format!("[{},{}]", v, t.as_usize()))
                        .collect();
                    format!(
                        "{{\"k\":\"switch\",\"discr\":{},\"targets\":[{}],\"otherwise\":{},{}}}",
                        cx.operand(discr),
                        ts.join(","),
                        targets.otherwise().as_usize(),
                        sp
                    )
                }
                TerminatorKind::Goto { target } => {
                    format!("{{\"k\":\"goto\",\"t\":{}}}", target.as_usize())
                }
                TerminatorKind::Return => format!("{{\"k\":\"return\",{}}}", sp),
                TerminatorKind::Unreachable => "{\"k\":\"unreachable\"}".to_string(),
                TerminatorKind::Drop { place, target, .. } => format!(
                    "{{\"k\":\"drop\",\"pl\":{},\"t\":{},{}}}",
                    cx.place(place),
                    target.as_usize(),
                    sp
                ),
                TerminatorKind::Yield {
                    value,
                    resume,
                    drop,
                    ..
                } => format!(
                    "{{\"k\":\"yield\",\"t\":{},\"drop\":{},\"value\":{},{}}}",
                    resume.as_usize(),
                    drop.map(|d| d.as_usize().to_string())
                        .unwrap_or("null".into()),
                    cx.operand(value),
                    sp
                ),
                TerminatorKind::FalseEdge { real_target, .. } => format!(
                    "{{\"k\":\"goto\",\"t\":{},\"false\":true}}",
                    real_target.as_usize()
                ),
                TerminatorKind::FalseUnwind { real_target, .. } => format!(
                    "{{\"k\":\"goto\",\"t\":{},\"loophead\":true}}",
                    real_target.as_usize()
                ),
                TerminatorKind::Assert {
                    target, msg, cond, ..
                } => format!(
                    "{{\"k\":\"assert\",\"t\":{},\"msg\":{},\"cond\":{},{}}}",
                    target.as_usize(),
                    esc(&format!("{:?}", msg)),
                    cx.operand(cond),
                    sp
                ),
                TerminatorKind::CoroutineDrop => "{\"k\":\"coroutine_drop\"}".to_string(),
                TerminatorKind::UnwindResume => "{\"k\":\"resume\"}".to_string(),
                TerminatorKind::UnwindTerminate(..) => "{\"k\":\"terminate\"}".to_string(),
                k => format!("{{\"k\":\"other\",\"s\":{}}}", esc(&format!("{:?}", k))),
            };
            blocks.push(format!(
                "{{\"cleanup\":{},\"stmts\":[{}],\"term\":{}}}",
                data.is_cleanup,
                stmts.join(","),
                t
            ));
        }
        let parent = tcx.opt_parent(did);
        let parent_id = parent.map(|p| uid(tcx, p));
        // impl header, if the body (or its closest fn-like ancestor) is an associated fn of an impl
        let mut impl_of = "null".to_string();
        let mut vis = "null".to_string();
        if matches!(kind, DefKind::Fn | DefKind::AssocFn) {
            vis = esc(&format!("{:?}", tcx.visibility(did)));
        }
        if kind == DefKind::AssocFn {
            if let Some(imp) = tcx.impl_of_assoc(did) {
                let self_ty = tcx.type_of(imp).instantiate_identity().skip_norm_wip();
                let tr = tcx
                    .impl_opt_trait_ref(imp)
                    .map(|t| format!("{}", t.instantiate_identity().skip_norm_wip().print_only_trait_path()));
                let self_head = match self_ty.kind() {
                    ty::Adt(d, _) => Some(tcx.def_path_str(d.did())),
                    _ => None,
                };
                impl_of = format!(
                    "{{\"trait\":{},\"self\":{},\"self_head\":{},\"impl_id\":{}}}",
                    opt(tr),
                    esc(&format!("{}", self_ty)),
                    opt(self_head),
                    esc(&uid(tcx, imp))
                );
            } else if let Some(tr) = tcx.trait_of_assoc(did) {
                impl_of = format!(
                    "{{\"trait\":{},\"self\":\"Self\",\"self_head\":null,\"impl_id\":null,\"provided\":true}}",
                    esc(&tcx.def_path_str(tr))
                );
            }
        }
        let coroutine = body.coroutine.is_some();
        fns.push(format!(
            "{{\"id\":{},\"path\":{},\"kind\":{},\"parent\":{},\"impl_of\":{},\"vis\":{},\"coroutine\":{},\"argc\":{},{},\"locals\":[{}],\"blocks\":[{}]}}",
            esc(&uid(tcx, did)),
            esc(&path),
            esc(&format!("{:?}", kind)),
            opt(parent_id),
            impl_of,
            vis,
            coroutine,
            body.arg_count,
            cx.span(body.span),
            locals.join(","),
            blocks.join(",")
        ));
    }
    // ADT tables (local)
    let mut adts = vec![];
    let mut enums = vec![];
    for id in tcx.hir_crate_items(()).definitions() {
        let did = id.to_def_id();
        let dk = tcx.def_kind(did);
        if matches!(dk, DefKind::Struct | DefKind::Enum | DefKind::Union) {
            let def = tcx.adt_def(did);
            let mut vs = vec![];
            for (vi, v) in def.variants().iter_enumerated() {
                let fs: Vec<String> = v
                    .fields
                    .iter()
                    .map(|f| {
                        format!(
                            "[{},{},{}]",
                            esc(&f.name.to_string()),
                            esc(&format!("{}", tcx.type_of(f.did).instantiate_identity().skip_norm_wip())),
                            esc(&format!("{:?}", f.vis))
                        )
                    })
                    .collect();
                let discr = if def.is_enum() {
                    format!("{}", def.discriminant_for_variant(tcx, vi).val)
                } else {
                    "0".to_string()
                };
                vs.push(format!(
                    "{{\"name\":{},\"discr\":{},\"fields\":[{}]}}",
                    esc(&v.name.to_string()),
                    esc(&discr),
                    fs.join(",")
                ));
            }
            adts.push(format!(
                "{{\"id\":{},\"path\":{},\"kind\":{},\"vis\":{},\"variants\":[{}]}}",
                esc(&uid(tcx, did)),
                esc(&tcx.def_path_str(did)),
                esc(&format!("{:?}", dk)),
                esc(&format!("{:?}", tcx.visibility(did))),
                vs.join(",")
            ));
            if def.is_enum() {
                foreign_enums
                    .borrow_mut()
                    .entry(tcx.def_path_str(did))
                    .or_insert(did);
            }
        }
    }
    for (p, did) in foreign_enums.borrow().iter() {
        let def = tcx.adt_def(*did);
        let vs: Vec<String> = def
            .variants()
            .iter_enumerated()
            .map(|(vi, v)| {
                format!(
                    "[{},{},{}]",
                    esc(&v.name.to_string()),
                    v.fields.len(),
                    esc(&format!("{}", def.discriminant_for_variant(tcx, vi).val))
                )
            })
            .collect();
        enums.push(format!("{}:[{}]", esc(p), vs.join(",")));
    }
    // trait impls (local)
    let mut impls = vec![];
    for (trait_did, impl_ids) in tcx.all_local_trait_impls(()).iter() {
        for imp in impl_ids {
            let self_ty = tcx.type_of(imp.to_def_id()).instantiate_identity().skip_norm_wip();
            let self_head = match self_ty.kind() {
                ty::Adt(d, _) => Some(tcx.def_path_str(d.did())),
                _ => None,
            };
            let sp = tcx.def_span(imp.to_def_id());
            let derived = sp.from_expansion();
            let mut methods = vec![];
            for item in tcx.associated_items(imp.to_def_id()).in_definition_order() {
                if matches!(item.kind, ty::AssocKind::Fn { .. }) {
                    methods.push(format!(
                        "[{},{}]",
                        esc(&item.name().to_string()),
                        esc(&uid(tcx, item.def_id))
                    ));
                }
            }
            impls.push(format!(
                "{{\"trait\":{},\"self\":{},\"self_head\":{},\"impl_id\":{},\"from_expansion\":{},\"methods\":[{}]}}",
                esc(&tcx.def_path_str(*trait_did)),
                esc(&format!("{}", self_ty)),
                opt(self_head),
                esc(&uid(tcx, imp.to_def_id())),
                derived,
                methods.join(",")
            ));
        }
    }
    impls.sort();
    let cfgs = std::env::var("MIRFACTS_CONFIG").unwrap_or_default();
    let out = format!(
        "{{\"crate\":{},\"config\":{},\"stats\":{{\"bodies\":{},\"blocks\":{},\"calls\":{}}},\"enums\":{{{}}},\"adts\":[{}],\"impls\":[{}],\"fns\":[\n{}\n]}}\n",
        esc(krate),
        esc(&cfgs),
        bodies.len(),
        nblocks,
        ncalls,
        enums.join(","),
        adts.join(",\n"),
        impls.join(",\n"),
        fns.join(",\n")
    );
    let dir = std::env::var("MIRFACTS_OUT").expect("MIRFACTS_OUT not set");
    std::fs::create_dir_all(&dir).unwrap();
    let tmp = format!("{}/.{}.{}.tmp", dir, krate, std::process::id());
    std::fs::write(&tmp, out).unwrap();
    std::fs::rename(&tmp, format!("{}/{}.json", dir, krate)).unwrap();
}

fn main() {
    let mut args: Vec<String> = std::env::args().collect();
    // invoked as RUSTC_WRAPPER / RUSTC_WORKSPACE_WRAPPER: argv[1] is the real rustc path
    if args.len() > 1 && (args[1].ends_with("rustc") || args[1].contains("/rustc")) {
        args.remove(1);
    }
    rustc_driver::run_compiler(&args, &mut Cb);
}
