"""Rules shared by C05 (client) and C06 (server): timer arming and expiry structure."""
from engine.facts import CannotDecide, callee_is, path_matches, strip_generics
from engine import cfg
from .common import Table, norm_path, remaining_time, guarded_by_variant


def arming_rules(ctx, tag, side):
    F, P, R = ctx.F, ctx.P, ctx.run
    table = Table(F, side)
    ins = table.one(table.inserting(), 'inserting')
    bodies = table.bodies(ins)
    arms = [(g, bb, t) for g in bodies for bb, t in g.calls() if callee_is(t, 'DelayQueue::insert', 'DelayQueue::insert_at')]
    R.ob(tag + '.arm', (side + ' table insert', 'arms one timer'), len(arms) == 1, 'registering a request arms exactly one deadline timer',
         [g.loc(t) for g, _, t in arms] or [ins.loc(ins.d)])
    other_arms = [(g, bb, t) for g, bb, t in F.all_calls('DelayQueue::insert', 'DelayQueue::insert_at', 'DelayQueue::reset', 'DelayQueue::reset_at')
                  if (not any(g.id == b.id for b in bodies) or callee_is(t, 'DelayQueue::reset', 'DelayQueue::reset_at'))
                  and (side in g.npath.split('::')[0:1] or ('::' + side + '::') in ('::' + g.npath))]
    R.ob(tag + '.arm', (side, 'no other site arms or re-arms a deadline timer'), not other_arms,
         'timers are armed only when a request is registered and never re-armed', [g.loc(t) for g, _, t in other_arms] or [ins.loc(ins.d)])
    from .common import lifter, own_sites
    lift = lifter(F, P, bodies)     # the timer may be armed in a constructor of the entry type: its parameters are the table method's arguments
    for g, bb, t in arms:
        a = [lift(g, P.operand(g, x, at=bb)) for x in t['args']]
        tr = P.root(a[0])
        ok = bool(tr) and all(r == ('param', ins.id, 1) and P.fpath(p) == (table.timer_field,) for r, p in tr)
        R.ob(tag + '.arm', (side + ' table insert', 'timer lives in the table'), ok, 'the timer is inserted into the table\'s own DelayQueue', [g.loc(t)])
        # key of the timer = key of the map entry
        entry = [(g2, bb2, t2) for g2 in bodies for bb2, t2 in g2.calls() if callee_is(t2, 'HashMap::entry', 'HashMap::insert')]
        kr = {r for r, _ in P.root(a[1])}
        ok = len(entry) == 1 and kr == {r for r, _ in P.root(lift(entry[0][0], P.operand(entry[0][0], entry[0][2]['args'][1], at=entry[0][1])))} and all(r[0] == 'param' for r in kr)
        R.ob(tag + '.arm', (side + ' table insert', 'timer keyed by the request id'), ok, 'the timer carries the id under which the request is stored', [g.loc(t)])
        if callee_is(t, 'DelayQueue::insert_at'):
            # absolute form: the instant itself must be the deadline
            dr = P.root(a[2])
            ok2, dls, clamped, det = bool(dr) and all(r[0] == 'param' for r, _ in dr), [a[2]], False, ''
        else:
            ok2, dls, clamped, det = remaining_time(P, a[2])
        R.ob(tag + '.arm', (side + ' table insert', 'timeout = own deadline - now'), ok2,
             'the timer is armed with the request\'s own deadline minus a fresh now (optionally bounded by a constant), never a constant or a swapped difference', [g.loc(t)], det)
        R.info[side + '_timeout_clamped'] = clamped
        # the deadline is a parameter of the registering method (the stored request's own)
        droots = [(r, p) for d in dls for r, p in P.root(d)]
        ok = bool(droots) and all(r[0] == 'param' and r[1] == ins.id for r, _ in droots)
        R.ob(tag + '.arm', (side + ' table insert', 'deadline is the registered request\'s'), ok, 'the deadline comes from the method\'s own request/context parameter', [g.loc(t)],
             str([P.describe(r) + str(list(norm_path(p))) for r, p in droots]))
        # the key returned by insert is what is stored in the entry
        key_field = table.data_field('delay_queue::Key')
        stored = [(i, j, s) for i, j, s in g.aggregates(table.data_path)]
        ok = len(stored) == 1
        if ok:
            i, j, s = stored[0]
            kr2 = P.root(P._field(('agg', g.id, i, j), key_field))
            ok = bool(kr2) and all(r == ('call', g.id, bb) for r, _ in kr2)
        R.ob(tag + '.arm', (side + ' table insert', 'entry remembers its timer key'), ok, 'the entry stores the key of the timer armed for it', [g.loc(t)])
    for g0, bb0, t in arms:
        # judged in the table method's own body: at the arming call, or at the call to the helper that arms
        oks = []
        for g, bb in own_sites(F, table, ins, g0, bb0):
            owners = [b2 for b2, t2 in g.calls() if callee_is(t2, 'hash_map::VacantEntry::insert', 'HashMap::insert', 'hash_map::Entry::or_insert', 'hash_map::Entry::or_insert_with')]
            # a path that does not store the entry may instead disarm the timer it just armed (key = this very timer's)
            me_ = ('call', g0.id, bb0)
            for b2, t2 in g.calls():
                h_ = F.callee_fn(t2)
                direct = callee_is(t2, 'DelayQueue::remove', 'DelayQueue::try_remove') and all(P.unbound(r) == me_ for r, _ in P.root(P.operand(g, t2['args'][1], at=b2))) and bool(P.root(P.operand(g, t2['args'][1], at=b2)))
                via = False
                if h_ is not None and table.is_helper(h_) and h_.kind != 'Closure':
                    for x in F.with_descendants(h_):
                        for b3, t3 in x.calls():
                            if callee_is(t3, 'DelayQueue::remove', 'DelayQueue::try_remove'):
                                rr = P.root(P.operand(x, t3['args'][1], at=b3), through_params=table.is_helper, callers={g.id})
                                via = via or (bool(rr) and all(P.unbound(r) == me_ for r, _ in rr))
                if direct or via:
                    owners.append(b2)
            oks.append(bool(owners) and cfg.all_paths_pass(g, bb, cfg.exits(g), set(owners)))
        g, bb = g0, bb0
        ok = bool(oks) and all(oks)
        R.ob(tag + '.arm', (side + ' table insert', 'an armed timer always gets an owning entry'), ok,
             'on every path after arming the timer the entry that stores its key is inserted: no timer is left armed for an id whose registration was refused (it would later fire on another request with that id)',
             [g.loc(t)])
    return table, ins, arms


def expiry_rules(ctx, tag, side, table):
    F, P, R = ctx.F, ctx.P, ctx.run
    exp = table.one(table.expiring(), 'expiring')
    bodies = table.bodies(exp)
    pe = [(g, bb, t) for g in bodies for bb, t in g.calls() if callee_is(t, 'DelayQueue::poll_expired')]
    R.ob(tag + '.expiry', (side + ' table expiry', 'polls the table timer'), len(pe) == 1, 'expiry polls the table\'s DelayQueue once', [g.loc(t) for g, _, t in pe] or [exp.loc(exp.d)])
    if len(pe) != 1:
        return exp
    pg, pbb, pt = pe[0]
    pe_term = ('call', pg.id, pbb)
    is_expired_item = lambda r, p: P.unbound(r) == pe_term and (('v', 'Some'), ('f', 0)) == tuple(x for x in norm_path(p) if x[0] in 'vf')[2:4] or (P.unbound(r) == pe_term and ('v', 'Some') in p)
    from .common import MAP_REMOVALS, removal_key_terms
    rms = [(g, bb, t) for g in bodies for bb, t in g.calls() if callee_is(t, *MAP_REMOVALS)]
    R.ob(tag + '.expiry', (side + ' table expiry', 'removes the expired entry'), len(rms) == 1, 'expiry removes one map entry', [g.loc(t) for g, _, t in rms] or [exp.loc(exp.d)])
    for g, bb, t in rms:
        kr = [x for kt in removal_key_terms(P, g, bb, t) for x in P.root(kt, through_params=True, callers={b.id for b in bodies})]   # a shared private helper is judged in the expiry's own calling context
        ok = bool(kr) and all(P.unbound(r) == pe_term and ('v', 'Some') in p for r, p in kr)
        R.ob(tag + '.expiry', (side + ' table expiry', 'removal keyed by the expired timer\'s id'), ok,
             'the entry removed on expiry is the one whose timer fired (key = the Expired item\'s value, on the Some edge)', [g.loc(t)],
             str([P.describe(r) + str(list(norm_path(p))) for r, p in kr]))
    # a fired timer never leaves its entry behind: if the lookup is an `entry(id)`, the Occupied edge reaches the entry's removal on every path (the
    # timer is gone, so an entry kept here has no timer any more — nothing would ever resolve or reclaim it, and its stored key would dangle)
    for g in bodies:
        for bb, t in g.calls():
            if not callee_is(t, 'HashMap::entry'):
                continue
            et = ('call', g.id, bb)
            rem_blocks = set()
            for b2, t2 in g.calls():
                if callee_is(t2, 'hash_map::OccupiedEntry::remove', 'hash_map::OccupiedEntry::remove_entry'):
                    if any(P.unbound(x) == et for x, _ in P.root(P.operand(g, t2['args'][0], at=b2))):
                        rem_blocks.add(b2)
            occ = None
            for i, b in enumerate(g.blocks):
                if b['cleanup'] or b['term']['k'] != 'switch' or b['term']['discr']['k'] not in ('copy', 'move'):
                    continue
                tt = P.operand(g, b['term']['discr'], at=i)
                if tt[0] == 'discr' and any(P.unbound(x) == et for x, _ in P.root(tt[1], inline=False)):
                    from .common import variant_values
                    ety = None
                    for st_ in b['stmts']:
                        if st_['rv']['k'] == 'discr':
                            ety = st_['rv'].get('ty')
                    vals = variant_values(F, ety, ['Occupied']) if ety else None
                    if vals:
                        occ = dict((v, x) for v, x in b['term']['targets']).get(vals[0], b['term']['otherwise'])
            ok = occ is not None and bool(rem_blocks) and cfg.all_paths_pass(g, occ, cfg.exits(g), rem_blocks)
            R.ob(tag + '.expiry', (side + ' table expiry', 'a fired timer\'s entry is always removed'), ok,
                 'once the entry of the fired timer was found it is removed on every path: no entry is left without a timer', [g.loc(t)])
    return exp
