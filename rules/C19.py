"""C19 Request hooks run in order and short-circuit correctly — E-CFG + E-PROV on the hook coroutines."""
from engine.facts import CannotDecide, callee_is
from engine import cfg
from engine.asyncs import awaits, await_of_call, base_local
from .common import guarded_by_variant, norm_path

EXTRA_CONFIGS = ('default', 'tokio1', 'serde1', 'serde-transport')   # feature configurations re-analysed in the thorough tier
META = {
    'level': 'other',
    'technique': 'static dominator / must-pass-through and provenance rules on the MIR of the five hook coroutines',
    'text': 'Decides on every control-flow path of the hook wrappers: the before-hook completes before serve starts and serve is reachable only on the Continue edge of the hook\'s result, '
            'whose residual is what is returned otherwise; cons-lists run first then rest with the same short-circuit; the after-hook is awaited exactly once on every path from serve '
            'completion to return, on &mut of the very result local that is returned, and that local is neither assigned nor lent out mutably afterwards; the combined hook skips `after` on Break and shows it the context local its `before` mutated. '
            'Chains of any length and nesting are compositions of these five bodies (generic over the wrapped Serve), so the per-body shape covers all chain lengths.',
    'note': 'Trusted: rustc MIR construction and async desugaring. User-supplied hooks themselves are arbitrary code and out of scope.',
}


def one(xs, what, f):
    if len(xs) != 1:
        raise CannotDecide('%s: %d candidates in %s' % (what, len(xs), f.id))
    return xs[0]


def coroutine_of(F, m):
    bs = [b for b in F.with_descendants(m) if b.coroutine]
    return one(bs, 'coroutine body', m)


def calls_named(b, *n):
    return [(bb, t) for bb, t in b.calls() if callee_is(t, *n)]


def fail_closed_if_delegated(F, b, found, *names):
    """the per-body rules need the hook / serve calls in the wrapper's own body.  If some are missing here but present in a local helper function the body
    calls (e.g. an `async fn vetted(hook, ctx, req)` shared by several wrappers), the rules do not apply to this shape: cannot decide (no verdict either way)"""
    if found:
        return
    for bb, t in b.calls():
        h = F.callee_fn(t)
        if h is None:
            continue
        for x in F.with_descendants(h):
            if any(callee_is(t2, *names) for _, t2 in x.calls()):
                raise CannotDecide('%s delegates its %s call to the helper %s: the wrapper rules are stated over the wrapper\'s own body' % (b.npath, names[0].split('::')[-1], h.npath))


def continue_guard(F, P, b, hook_bb, target_bb):
    """is target_bb dominated by the Continue edge of a `?` on the awaited result of the call at hook_bb?"""
    pred = lambda x: any(r == ('call', b.id, hook_bb) for r, _ in P.root(x))
    return bool(guarded_by_variant(F, P, b, target_bb, pred, ['Continue', 'Ok']))


def ret_roots(P, b):
    return P.root(P._local_whole(b, 0))


def is_error_of(P, b, r, p, hook_bb):
    """is the return alternative (r, p) the error of the awaited call at hook_bb — the residual of `?`, or an Err(..) rebuilt from that call's Err payload?"""
    call = ('call', b.id, hook_bb)
    if P.unbound(r) == call and (('t', '?err') in p or ('v', 'Err') in p):
        return True
    ru = P.unbound(r)
    if ru[0] == 'agg' and P._agg_rv(ru).get('variant') == 'Err':
        inner = P.root(P._field(r, 0, 0))
        return bool(inner) and all(P.unbound(x) == call and (('v', 'Err') in q or ('t', '?err') in q) for x, q in inner)
    return False


def run(ctx):
    F, P, R = ctx.F, ctx.P, ctx.run
    R.explanation = META['text']
    R.rule_text = 'one obligation per (wrapper body, clause); clauses are dominator / cut / provenance facts over the coroutine MIR'
    R.assumptions = ['async desugaring of rustc (poll loop + yield) is as documented']
    R.info['configs'] = ['full']
    analysed = []

    # ------------------------------------------------------------ HookThenServe
    hs = coroutine_of(F, F.trait_method('server::Serve', 'request_hook::before::HookThenServe', 'serve'))
    analysed.append(hs.id)
    B = calls_named(hs, 'BeforeRequest::before')
    S = calls_named(hs, 'server::Serve::serve')
    fail_closed_if_delegated(F, hs, B, 'BeforeRequest::before')
    fail_closed_if_delegated(F, hs, S, 'server::Serve::serve')
    R.ob('C19.before', ('HookThenServe::serve', 'one hook call, one serve call'), len(B) == 1 and len(S) == 1,
         'the wrapper calls the before-hook once and the wrapped serve once', [hs.loc(t) for _, t in B + S] or [hs.loc(hs.d)])
    if len(B) == 1 and len(S) == 1:
        (bb_b, tb), (bb_s, ts) = B[0], S[0]
        ab = await_of_call(P, hs, bb_b)
        R.ob('C19.before', ('HookThenServe::serve', 'hook awaited before serve'), ab is not None and ab['ready_bb'] is not None and cfg.dominates(hs, ab['ready_bb'], bb_s),
             'serve starts only after the before-hook future completed', [hs.loc(tb), hs.loc(ts)])
        R.ob('C19.before', ('HookThenServe::serve', 'serve only on Continue'), continue_guard(F, P, hs, bb_b, bb_s),
             'the handler is not invoked when the hook fails (serve is dominated by the Continue edge of the hook result)', [hs.loc(ts)])
        rr = ret_roots(P, hs)
        ok = bool(rr) and all((r == ('call', hs.id, bb_s) and ('t', 'await') in p) or is_error_of(P, hs, r, p, bb_b) for r, p in rr)
        R.ob('C19.before', ('HookThenServe::serve', 'hook error becomes the response'), ok and any(is_error_of(P, hs, r, p, bb_b) for r, p in rr),
             'the value returned is either serve\'s result or the residual of the hook\'s error', [hs.loc(hs.d)], str([P.describe(r) + str(p) for r, p in rr]))
        lc_b = base_local(hs, P, tb['args'][1])
        lc_s = base_local(hs, P, ts['args'][1])
        lr_b = base_local(hs, P, tb['args'][2])
        lr_s = base_local(hs, P, ts['args'][2])
        R.ob('C19.before', ('HookThenServe::serve', 'serve sees the context the hook mutated'), lc_b is not None and lc_b == lc_s,
             'the ctx passed to serve is the local whose &mut the hook received', [hs.loc(tb), hs.loc(ts)], 'hook ctx local _%s, serve ctx local _%s' % (lc_b, lc_s))
        R.ob('C19.before', ('HookThenServe::serve', 'same request'), lr_b is not None and lr_b == lr_s,
             'the hook inspects the request that is then served', [hs.loc(tb), hs.loc(ts)])

    # ------------------------------------------------------------ BeforeRequestCons
    cons = coroutine_of(F, F.trait_method('BeforeRequest', 'request_hook::before::BeforeRequestCons', 'before'))
    analysed.append(cons.id)
    B = calls_named(cons, 'BeforeRequest::before')
    fail_closed_if_delegated(F, cons, B, 'BeforeRequest::before')
    R.ob('C19.cons', ('BeforeRequestCons::before', 'two hook calls'), len(B) == 2, 'the cons cell runs exactly its two members', [cons.loc(t) for _, t in B] or [cons.loc(cons.d)])
    if len(B) == 2:
        def which_field(t):
            out = set()
            for r, p in P.root(P.operand(cons, t['args'][0])):
                fp = [s[1] for s in p if s[0] == 'f']
                out.add(str(fp[-1]) if fp else '?')
            return out
        f0 = [x for x in B if which_field(x[1]) == {'0'}]
        f1 = [x for x in B if which_field(x[1]) == {'1'}]
        R.ob('C19.cons', ('BeforeRequestCons::before', 'members identified'), len(f0) == 1 and len(f1) == 1,
             'one call is on the first member (field 0) and one on the rest (field 1)', [cons.loc(t) for _, t in B])
        if len(f0) == 1 and len(f1) == 1:
            (b0, t0), (b1, t1) = f0[0], f1[0]
            a0 = await_of_call(P, cons, b0)
            R.ob('C19.cons', ('BeforeRequestCons::before', 'first before rest'), a0 is not None and a0['ready_bb'] is not None and cfg.dominates(cons, a0['ready_bb'], b1),
                 'hooks run in the order they were chained: the first member completes before the rest starts', [cons.loc(t0), cons.loc(t1)])
            R.ob('C19.cons', ('BeforeRequestCons::before', 'rest only on Continue'), continue_guard(F, P, cons, b0, b1),
                 'the first failing hook stops the chain', [cons.loc(t1)])
            same_ctx = base_local(cons, P, t0['args'][1]) == base_local(cons, P, t1['args'][1]) and base_local(cons, P, t0['args'][1]) is not None
            R.ob('C19.cons', ('BeforeRequestCons::before', 'shared context'), same_ctx,
                 'each hook sees the context changes made by those before it (same &mut Context)', [cons.loc(t0), cons.loc(t1)])
            rr = ret_roots(P, cons)
            ok = bool(rr)
            seen_err = set()
            for r, p in rr:
                if is_error_of(P, cons, r, p, b0):
                    seen_err.add(('call', cons.id, b0))
                elif is_error_of(P, cons, r, p, b1):
                    seen_err.add(('call', cons.id, b1))
                elif P.unbound(r) == ('call', cons.id, b1) and ('t', 'await') in p and not any(st[0] == 'v' and st[1] in ('Ok', 'Err', 'Continue', 'Break') for st in p):
                    seen_err.add(('call', cons.id, b1))   # the rest's whole result is the chain's result (its error included)
                elif r[0] == 'agg' and P._agg_rv(r)['variant'] == 'Ok':
                    pass
                else:
                    ok = False
            R.ob('C19.cons', ('BeforeRequestCons::before', 'errors propagate'), ok and len(seen_err) == 2,
                 'the chain returns the first error, or Ok(()) when every member succeeded', [cons.loc(cons.d)], str([P.describe(r) + str(p) for r, p in rr]))

    # ------------------------------------------------------------ chain building: `then` appends at the end
    for im in F.trait_impls('BeforeRequestList'):
        for name, mid in im['methods']:
            if name != 'then':
                continue
            m = F.fns.get(mid)
            if m is None:
                continue
            analysed.append(m.id)
            who = (im['self_head'] or '?').split('::')[-1]
            aggs = [(i, j, s) for i, j, s in m.aggregates('BeforeRequestCons')]
            rr = P.root(P._local_whole(m, 0))
            ok = len(rr) == 1 and rr[0][0][0] == 'agg'
            det = ''
            if ok:
                agg = rr[0][0]
                h = P.root(P._field(agg, 0, 0))
                tl = P.root(P._field(agg, 1, 1))
                if who == 'BeforeRequestNil':
                    # Nil.then(next) = Cons(next, Nil)
                    ok = bool(h) and all(r == ('param', m.id, 2) for r, _ in h) and bool(tl) and all(r[0] in ('param', 'agg', 'const') and r != ('param', m.id, 2) for r, _ in tl)
                else:
                    # Cons(first, rest).then(next) = Cons(first, rest.then(next))
                    head_ok = bool(h) and all(r == ('param', m.id, 1) and [x for x in P.fpath(p)][-1:] in (('0',), (0,)) or (r == ('param', m.id, 1) and any(x[0] == 'f' and str(x[1]) == '0' for x in p)) for r, p in h)
                    tail_ok = bool(tl)
                    for r, p in tl:
                        if not P.is_call(r, 'BeforeRequestList::then'):
                            tail_ok = False
                            continue
                        a = P.args_of(r)
                        r0 = P.root(a[0])
                        r1 = P.root(a[1])
                        if not (r0 and all(x == ('param', m.id, 1) and any(y[0] == 'f' and str(y[1]) == '1' for y in q) for x, q in r0)):
                            tail_ok = False
                        if not (r1 and all(x == ('param', m.id, 2) for x, _ in r1)):
                            tail_ok = False
                    ok = head_ok and tail_ok
                    det = 'head: %s tail: %s' % ([P.describe(r) + str(list(norm_path(p))) for r, p in h], [P.describe(r) for r, _ in tl])
            R.ob('C19.chain', (who + '::then', 'appends the new hook at the end of the chain'), ok,
                 'chaining keeps the order: the existing head stays first and the new hook is appended behind the rest (recursively), so hooks run in the order they were chained', [m.loc(m.d)], det)

    # ------------------------------------------------------------ closure forwards
    for trait, meth in (('BeforeRequest', 'before'), ('AfterRequest', 'after')):
        ims = [im for im in F.trait_impls(trait) if im['self_head'] is None]
        for im in ims:
            for name, mid in im['methods']:
                if name != meth:
                    continue
                m = F.fns.get(mid)
                if m is None:
                    continue
                b = coroutine_of(F, m)
                analysed.append(b.id)
                cs = calls_named(b, 'FnMut::call_mut', 'Fn::call', 'FnOnce::call_once')
                cs = [(bb, t) for bb, t in cs if not t.get('expn')]
                ok = len(cs) == 1
                if ok:
                    bb, t = cs[0]
                    a = await_of_call(P, b, bb)
                    rr = ret_roots(P, b)
                    ok = a is not None and all(r == ('call', b.id, bb) and ('t', 'await') in p for r, p in rr) and bool(rr)
                    # every argument of the hook is forwarded
                    tup = P.operand(b, t['args'][1])
                    n_args = m.argc - 1
                    fw = 0
                    for k in range(n_args):
                        rs = P.root(P._field(tup, k, k))
                        if rs and all(r[0] == 'param' for r, _ in rs):
                            fw += 1
                    ok = ok and fw == n_args
                R.ob('C19.fn', ('closure as ' + trait, 'forwards to the closure'), ok,
                     'a closure used as a hook is called once with the hook\'s arguments and its result is the hook\'s result', [b.loc(b.d)])

    # ------------------------------------------------------------ ServeThenHook
    def after_rules(b, tag, need_before):
        S = calls_named(b, 'server::Serve::serve')
        A = calls_named(b, 'AfterRequest::after')
        fail_closed_if_delegated(F, b, S, 'server::Serve::serve')
        fail_closed_if_delegated(F, b, A, 'AfterRequest::after')
        R.ob(tag, (tag_name[tag], 'one serve call, one after call'), len(S) == 1 and len(A) == 1,
             'the wrapper calls the wrapped serve once and the after-hook once', [b.loc(t) for _, t in S + A] or [b.loc(b.d)])
        if len(S) != 1 or len(A) != 1:
            return None
        (bs, ts), (ba, ta) = S[0], A[0]
        as_ = await_of_call(P, b, bs)
        aa = await_of_call(P, b, ba)
        R.ob(tag, (tag_name[tag], 'after runs after serve completed'), as_ is not None and as_['ready_bb'] is not None and cfg.dominates(b, as_['ready_bb'], ba),
             'the after-hook starts only once the wrapped serve produced its result', [b.loc(ts), b.loc(ta)])
        rets = cfg.exits(b)
        once = aa is not None and aa['ready_bb'] is not None and as_ is not None and as_['ready_bb'] is not None \
            and cfg.all_paths_pass(b, as_['ready_bb'], rets, {aa['ready_bb']}) \
            and ba not in cfg.reachable(b, aa['ready_bb'])
        R.ob(tag, (tag_name[tag], 'after exactly once'), once,
             'every path from serve\'s completion to the return awaits the after-hook to completion, and it is not started again afterwards', [b.loc(ta)])
        # result local
        res_local = None
        if as_ is not None and as_['ready_bb'] is not None:
            # the user local that receives the Ready payload
            for i, j, s in b.stmts():
                rv = s['rv']
                if rv['k'] == 'use' and rv['op']['k'] in ('move', 'copy') and not s['pl']['p'] and b.local_name(s['pl']['l']) is not None:
                    rs = P.root(P.operand(b, rv['op']))
                    if rs and all(r == ('call', b.id, bs) and norm_path(p) == (('v', 'Ready'), ('f', 0)) for r, p in rs):
                        res_local = s['pl']['l']
        hook_res = base_local(b, P, ta['args'][2])
        ret_local = None
        for i, j, s in b.stmts():
            if s['pl']['l'] == 0 and not s['pl']['p'] and s['rv']['k'] == 'use' and cfg.dominates(b, aa['ready_bb'] if aa and aa['ready_bb'] is not None else 0, i):
                ret_local = base_local(b, P, s['rv']['op'])
        R.ob(tag, (tag_name[tag], 'hook edits the result that is sent'), res_local is not None and hook_res == res_local and ret_local == res_local,
             'the after-hook receives &mut of the very result local that is returned after it completes', [b.loc(ta)],
             'result local _%s, hook arg local _%s, returned local _%s' % (res_local, hook_res, ret_local))
        # ... and nothing else touches it afterwards: once the after-hook completed, the result local is neither assigned nor mutably borrowed again (an "improvement" of
        # the error after the hook ran — appending the original cause, re-mapping the kind — sends something the hook did not leave there)
        late = []
        if res_local is not None and aa is not None and aa['ready_bb'] is not None:
            after_blocks = cfg.reachable(b, aa['ready_bb'])
            for i, j, s_ in b.stmts():
                if i not in after_blocks or b.blocks[i]['cleanup'] or s_.get('expn'):
                    continue
                if s_['pl']['l'] == res_local:
                    late.append(b.loc(s_))
                rv_ = s_['rv']
                if rv_['k'] == 'ref' and rv_.get('mut') and rv_['pl']['l'] == res_local:
                    late.append(b.loc(s_))
            R.ob(tag, (tag_name[tag], 'result untouched after the after-hook'), not late,
                 'what is returned is exactly what the after-hook left in the result: the wrapper neither assigns to it nor lends it out mutably once the hook completed', late or [b.loc(ta)])
        # all ways of returning after serve completed return that local
        lc_s = base_local(b, P, ts['args'][1])
        lc_a = base_local(b, P, ta['args'][1])
        R.ob(tag, (tag_name[tag], 'after sees the request context'), lc_s is not None and lc_s == lc_a,
             'the context shown to the after-hook is the local that was passed to serve', [b.loc(ta)], 'serve ctx _%s, after ctx _%s' % (lc_s, lc_a))
        return (bs, ts, ba, ta)

    tag_name = {'C19.after': 'ServeThenHook::serve', 'C19.both': 'HookThenServeThenHook::serve'}
    sh = coroutine_of(F, F.trait_method('server::Serve', 'request_hook::after::ServeThenHook', 'serve'))
    analysed.append(sh.id)
    after_rules(sh, 'C19.after', False)
    rr = ret_roots(P, sh)
    S = calls_named(sh, 'server::Serve::serve')
    if len(S) == 1:
        ok = bool(rr) and all(r == ('call', sh.id, S[0][0]) for r, _ in rr)
        R.ob('C19.after', ('ServeThenHook::serve', 'returns the wrapped result'), ok,
             'what is returned is the wrapped serve\'s result (including an error of an inner before-hook) as left by the after-hook', [sh.loc(sh.d)])

    # ------------------------------------------------------------ HookThenServeThenHook
    hsh_m = F.trait_method('server::Serve', 'request_hook::before_and_after::HookThenServeThenHook', 'serve')
    nested = [b for b in F.with_descendants(hsh_m) if b.coroutine]
    if len(nested) > 1:
        # the wrapper was split into nested async blocks: the intra-body rules cannot be applied as they stand.  One clause is still decidable:
        # if the before part and the after part live in different bodies, the after call must be guarded, in its own body, by a test of the value
        # the nested block produced — otherwise the before part's error is handed to `after` like a handler result.
        where = {}
        for b in nested:
            for nm, key in (('BeforeRequest::before', 'B'), ('AfterRequest::after', 'A'), ('server::Serve::serve', 'S')):
                for bb, t in calls_named(b, nm):
                    where.setdefault(key, []).append((b, bb, t))
        if all(len(where.get(k, [])) == 1 for k in 'BAS') and where['B'][0][0].id != where['A'][0][0].id:
            (bB, bbB, tB), (bA, bbA, tA) = where['B'][0], where['A'][0]
            inner_ids = {b.id for b in nested if b.id.startswith(bA.id) and b.id != bA.id}
            def from_inner(x):
                for r, _ in P.root(x):
                    ru = P.unbound(r)
                    if ru[0] == 'agg' and P._agg_rv(ru).get('adt_id') in inner_ids:
                        return True
                    if ru[0] == 'call':
                        for a in P.call_args(ru):
                            for r2, _ in P.root(a):
                                if r2[0] == 'agg' and P._agg_rv(r2).get('adt_id') in inner_ids:
                                    return True
                return False
            guarded = bool(guarded_by_variant(F, P, bA, bbA, from_inner, ['Continue', 'Ok', 'Some']))
            carries = any(r == ('call', bB.id, bbB) and ('t', '?err') in p for r, p in ret_roots(P, bB))
            if carries and not guarded:
                R.ob('C19.both', ('HookThenServeThenHook::serve', 'after skipped on Break'), False,
                     'the after part is skipped when the before part fails', [bA.loc(tA)],
                     'the before part runs inside a nested async block whose result carries the before part\'s error; that result is handed to `after` unconditionally')
                analysed.append(bA.id)
                R.note('HookThenServeThenHook::serve is split into nested async blocks: the remaining clauses of this wrapper were not evaluated')
                R.info['bodies_analysed'] = analysed
                R.count('functions_analysed', len(analysed))
                return
        raise CannotDecide('coroutine body: %d candidates in %s' % (len(nested), hsh_m.id))
    hsh = coroutine_of(F, hsh_m)
    analysed.append(hsh.id)
    B = calls_named(hsh, 'BeforeRequest::before')
    fail_closed_if_delegated(F, hsh, B, 'BeforeRequest::before')
    R.ob('C19.both', ('HookThenServeThenHook::serve', 'one before call'), len(B) == 1, 'the combined hook runs its before part once', [hsh.loc(t) for _, t in B] or [hsh.loc(hsh.d)])
    res = after_rules(hsh, 'C19.both', True)
    if len(B) == 1 and res is not None:
        (bb_b, tb) = B[0]
        bs, ts, ba, ta = res
        ab = await_of_call(P, hsh, bb_b)
        R.ob('C19.both', ('HookThenServeThenHook::serve', 'before completes before serve'), ab is not None and ab['ready_bb'] is not None and cfg.dominates(hsh, ab['ready_bb'], bs),
             'serve starts only after the before part completed', [hsh.loc(tb), hsh.loc(ts)])
        R.ob('C19.both', ('HookThenServeThenHook::serve', 'serve only on Continue'), continue_guard(F, P, hsh, bb_b, bs),
             'the handler is skipped when the before part fails', [hsh.loc(ts)])
        R.ob('C19.both', ('HookThenServeThenHook::serve', 'after skipped on Break'), continue_guard(F, P, hsh, bb_b, ba),
             'the after part is skipped when the before part fails', [hsh.loc(ta)])
        lb = base_local(hsh, P, tb['args'][1])
        la = base_local(hsh, P, ta['args'][1])
        ls = base_local(hsh, P, ts['args'][1])
        R.ob('C19.both', ('HookThenServeThenHook::serve', 'after sees the context before produced'), lb is not None and lb == la == ls,
             'before, serve and after all operate on the same context local', [hsh.loc(tb), hsh.loc(ta)], 'locals _%s _%s _%s' % (lb, ls, la))
        rr = ret_roots(P, hsh)
        ok = bool(rr) and all((r == ('call', hsh.id, bs) and ('t', 'await') in p) or is_error_of(P, hsh, r, p, bb_b) for r, p in rr)
        R.ob('C19.both', ('HookThenServeThenHook::serve', 'before error becomes the response'), ok and any(is_error_of(P, hsh, r, p, bb_b) for r, p in rr),
             'the value returned is serve\'s (after-edited) result or the residual of the before part\'s error', [hsh.loc(hsh.d)])
    # ------------------------------------------------------------ the wrappers themselves never edit the context: only hooks do
    # ("each seeing the context changes made by those before it": a wrapper that rewrites a field between two members hides or undoes such a change)
    wrappers = [('HookThenServe::serve', hs), ('BeforeRequestCons::before', cons), ('ServeThenHook::serve', sh), ('HookThenServeThenHook::serve', hsh)]
    for wname, b in wrappers:
        ctx_locals = set()
        for bb, t in b.calls():
            if callee_is(t, 'BeforeRequest::before', 'AfterRequest::after', 'server::Serve::serve'):
                l_ = base_local(b, P, t['args'][1])
                if l_ is not None:
                    ctx_locals.add(l_)
        writes = []
        for i, j, s_ in b.stmts():
            pl = s_['pl']
            if not pl['p'] or s_.get('expn'):
                continue
            has_field = any(e[0] == 'f' for e in pl['p'])
            if not has_field:
                continue
            base_is_ctx = pl['l'] in ctx_locals
            if not base_is_ctx and any(e[0] == 'd' for e in pl['p']):
                # a write through a reference: is it a reference to the context?
                for r_, p_ in P.root(P.local(b, pl['l'], at=i)):
                    ru_ = P.unbound(r_)
                    if ru_[0] == 'param' and 'context::Context' in b.local_ty(ru_[2]) and ru_[1] == b.id:
                        base_is_ctx = True
                    if ru_[0] == 'param' and b.kind != 'Fn' and 'Context' in str(F.fns[ru_[1]].local_ty(ru_[2])):
                        base_is_ctx = True
            if base_is_ctx and 'Context' in b.local_ty(pl['l']):
                writes.append(b.loc(s_))
        R.ob('C19.ctx', (wname, 'the wrapper itself does not edit the context'), not writes,
             'only hooks (and the handler) change the request context; the wrapper passes it on untouched, so every later hook sees exactly what the earlier ones produced', writes or [b.loc(b.d)])
    R.info['bodies_analysed'] = analysed
    R.count('functions_analysed', len(analysed))
    if len(analysed) < 5:
        raise CannotDecide('fewer than 5 hook bodies analysed')
