"""C01 Responses reach exactly the call that asked — id/key/sender pairing, single `Ok` writer."""
from engine.facts import CannotDecide, callee_is, strip_generics, path_matches
from engine import cfg
from engine.prov import const_int
from .common import MAP_REMOVALS, Table, client_dispatch_poll, reachable_local_fns, same_root, norm_path, guarded_by_variant, find_calls, loc, message_send_sites

EXPLANATION = (
    "Static pairing argument for request/response matching, decided on type-checked MIR of the real build: "
    "(1) the request id of a call is the result of one atomic fetch_add(counter, 1) shared by all clones of the handle and is the id "
    "of both the queued request and its cancel guard; (2) at the site that transmits a request, the wire id, the table key and the "
    "stored completion sender all project from the same dequeued request; (3) a response completes the table entry keyed by the id "
    "carried in that same response; (4) the completing removal removes by its key parameter, sends its value parameter on the "
    "removed entry's sender and has no effect on a miss; (5) every other completion writer can only deliver Err. "
    "Not decided: id uniqueness across usize wrap-around; HashMap / oneshot semantics (trusted).")


def value_shapes(ctx, P, term, depth=6, seen=None):
    """top-level constructor names a value may have: {'Ok','Err',...} or {'*'}"""
    F = P.F
    if seen is None:
        seen = set()
    if depth == 0 or term in seen:
        return {'*'}
    seen = seen | {term}
    out = set()
    for r, p in P.root(term):
        vp = norm_path(p)
        if r[0] == 'agg' and not vp:
            rv = P._agg_rv(r)
            out.add(rv['variant'] or rv['adt'])
            continue
        if r[0] == 'param' and not vp:
            f = F.fns[r[1]]
            # closures: the value comes from the callers of the closure (unknown) unless it is an upvar
            callers = [(g, bb, t) for g in F.fns.values() for bb, t in g.calls() if F.callee_fn(t) is f]
            if not callers or f.kind == 'Closure':
                out.add('*')
                continue
            for g, bb, t in callers:
                out |= value_shapes(ctx, P, P.operand(g, t['args'][r[2] - 1]), depth - 1, seen)
            continue
        if r[0] == 'call' and not vp:
            term_ = P.call_term(r)
            name = P.call_name(r) or ''
            # result of calling a closure value: look at what the closure returns
            if name.endswith('::call') or name.endswith('::call_mut') or name.endswith('::call_once'):
                got = False
                for cr, cp in P.root(P.call_args(r)[0], through_params=True):   # the closure may be handed down through several functions
                    cr = P.unbound(cr) if cr[0] == 'bound' and P.unbound(cr)[0] == 'agg' else cr
                    if cr[0] == 'agg' and P._agg_rv(cr)['adt'] == 'closure':
                        body = F.fns.get(P._agg_rv(cr)['adt_id'])
                        if body is not None:
                            out |= value_shapes(ctx, P, P._local_whole(body, 0), depth - 1, seen)
                            got = True
                    elif cr[0] == 'param':
                        f = F.fns[cr[1]]
                        # closure passed as parameter: look at callers of f
                        ff = F.enclosing_item(f) if f.kind == 'Closure' else f
                        # the parameter may be an upvar of a closure nested in ff: resolved by root(); here param of ff
                        callers = [(g, bb, t) for g in F.fns.values() for bb, t in g.calls() if F.callee_fn(t) is F.fns[cr[1]]]
                        for g, bb, t in callers:
                            for ar, ap in P.root(P.operand(g, t['args'][cr[2] - 1])):
                                if ar[0] == 'agg' and P._agg_rv(ar)['adt'] == 'closure':
                                    body = F.fns.get(P._agg_rv(ar)['adt_id'])
                                    if body is not None:
                                        out |= value_shapes(ctx, P, P._local_whole(body, 0), depth - 1, seen)
                                        got = True
                                else:
                                    out.add('*')
                                    got = True
                if not got:
                    out.add('*')
                continue
            out.add('*')
            continue
        out.add('*')
    return out or {'*'}


def run(ctx):
    F, P, R = ctx.F, ctx.P, ctx.run
    R.explanation = EXPLANATION
    R.rule_text = ("obligations = (rule, entry point, resource/site) instances over resolved MIR; provenance by backward slicing "
                   "through projections, conversions, `?`, pin projections and crate-local accessor helpers; non-trivial = matched a real construct")
    R.assumptions = ['tokio oneshot/mpsc and std HashMap behave as documented', 'usize request counter does not wrap within a connection']
    R.info['configs'] = ['full']
    table = Table(F, 'client')
    sender_field = table.data_field('oneshot::Sender')

    # ---------------------------------------------------------------- C01.1 id allocation
    call = F.inherent('client::Channel', 'call')
    bodies = F.with_descendants(call)
    dr = [(f, i, j, s) for f in bodies for i, j, s in f.aggregates('client::DispatchRequest')]
    gd = [(f, i, j, s) for f in bodies for i, j, s in f.aggregates('client::ResponseGuard')]
    if not dr:
        R.ob('C01.1', ('Channel::call', 'request aggregate'), False, 'Channel::call builds no DispatchRequest', [call.loc(call.d)])
    id_field = F.field_of_type('client::DispatchRequest', lambda t: t == 'u64')
    guard_id_field = F.field_of_type('client::ResponseGuard', lambda t: t == 'u64')
    id_roots = []
    counter_paths = set()
    for f, i, j, s in dr:
        t = P._field(('agg', f.id, i, j), id_field)
        roots = P.root(t)
        good = True
        why = []
        for r, p in roots:
            if not P.is_call(r, 'fetch_add'):
                good = False
                why.append('id comes from %s, not from an atomic fetch_add' % P.describe(r))
                continue
            args = P.args_of(r)
            rr = P.root(args[0]) if args else []
            recv_ok = bool(rr) and all(x[0] == 'param' and P.fpath(pp) for x, pp in rr)
            one = len(args) > 1 and const_int(args[1]) == 1
            if not recv_ok:
                good = False
                why.append('fetch_add receiver is not a field of the handle')
            else:
                for x, pp in rr:
                    counter_paths.add(P.fpath(pp))
            if not one:
                good = False
                why.append('fetch_add increment is not the constant 1')
            # no narrowing between the counter and the id
            if any(st[0] == 't' and str(st[1]).startswith('cast:') and not str(st[1]).endswith(('u64', 'u128', 'usize')) for st in p):
                good = False
                why.append('the counter value is narrowed before use')
            id_roots.append(r)
        R.ob('C01.1', ('Channel::call', 'id = fetch_add(handle counter, 1)'), good and bool(roots),
             'request id of the queued request is the result of one atomic fetch_add(counter, 1) on a counter field of the handle', [f.loc(s)], '; '.join(why))
    for f, i, j, s in gd:
        t = P._field(('agg', f.id, i, j), guard_id_field)
        roots = [r for r, p in P.root(t)]
        ok = bool(roots) and all(r in id_roots for r in roots)
        R.ob('C01.1', ('Channel::call', 'guard id = request id'), ok,
             'the cancel guard carries the same id value as the queued request', [f.loc(s)],
             'guard id from ' + ', '.join(P.describe(r) for r in roots))
    # ids are never handed out twice: in the client module the only operation on an atomic counter is that fetch_add — no store / compare_exchange / fetch_sub /
    # swap gives an id back (a "returned" id can already have been on the wire: a late or duplicated response for it would then complete the call that reuses it)
    from .common import in_module
    ATOMIC_WRITES = ('store', 'swap', 'compare_exchange', 'compare_exchange_weak', 'fetch_sub', 'fetch_update', 'fetch_max', 'fetch_min', 'fetch_and', 'fetch_or', 'fetch_xor', 'fetch_nand', 'get_mut', 'into_inner')
    rewinds = []
    n_atomic = 0
    for g_ in F.fns.values():
        if F.is_derived(g_) or not in_module(g_, 'client') or in_module(g_, 'client::stub'):
            continue
        for b_, t_ in g_.calls():
            c_ = strip_generics(t_.get('callee') or '')
            if '::atomic::Atomic' not in c_ and 'sync::atomic' not in c_:
                continue
            n_atomic += 1
            ty_ = (t_.get('arg_tys') or [''])[0] + (t_.get('self_ty') or '') + (t_.get('callee') or '')
            if c_.split('::')[-1] in ATOMIC_WRITES and not any(x in ty_ for x in ('bool', 'Bool', 'Ptr', '*mut', '*const')):     # integer atomics only
                rewinds.append(g_.loc(t_))
    R.ob('C01.1', ('client', 'the id counter only ever advances'), not rewinds and n_atomic >= 1,
         'no code of the client writes an atomic counter other than by fetch_add: an id, once drawn, is never handed out again', rewinds, '%d atomic operations in the client' % n_atomic)
    # Clone shares the counter: the field(s) on the way to the atomic are cloned from self, and an Arc lies on that way
    clone = F.trait_method('Clone', 'client::Channel', 'clone')
    aggs = list(clone.aggregates('client::Channel'))
    ok = bool(aggs) and len(counter_paths) == 1
    det = []
    counter_field = sorted(counter_paths)[0][0] if counter_paths else None
    if ok:
        cty = [x[1] for x in F.adt('client::Channel')['variants'][0]['fields'] if x[0] == counter_field]
        if not (cty and 'Arc<' in cty[0] and 'Atomic' in cty[0]):
            ok = False
            det.append('the counter field %s is not an Arc of an atomic (type %s): clones would not share it' % (counter_field, cty))
    for i, j, s in aggs:
        if counter_field is None:
            break
        t = P._field(('agg', clone.id, i, j), counter_field)
        for r, p in P.root(t):
            if not (r[0] == 'param' and counter_field in P.fpath(p)):
                ok = False
                det.append('cloned handle counter from %s' % P.describe(r))
    R.ob('C01.1', ('<Channel as Clone>::clone', 'shares counter'), ok, 'cloned handles share the one id counter (Arc clone of the counter field)',
         [clone.loc(clone.d)], '; '.join(det))
    # who may construct Channel
    ctors = [(f, i, j, s) for f, i, j, s in F.all_aggregates('client::Channel') if f.id != clone.id]
    new = F.free_fn('client::new')
    bad = [(f, s) for f, i, j, s in ctors if F.enclosing_item(f).id != new.id]
    R.ob('C01.1', ('client::Channel', 'constructors'), not bad and len(ctors) >= 1,
         'the only constructors of the client handle are client::new and Clone', [f.loc(s) for f, s in bad] or [new.loc(new.d)])

    # ---------------------------------------------------------------- C01.2 send pairing
    poll = client_dispatch_poll(F)
    reach = reachable_local_fns(F, poll)
    R.count('functions_analysed', len(reach))
    sends = message_send_sites(F, P, reach, 'Request')
    if not sends:
        R.ob('C01.2', ('dispatch poll', 'request send site'), False, 'no site hands a ClientMessage::Request to the transport', [poll.loc(poll.d)])
    ctors = [(f, s) for f, i, j, s in F.all_aggregates('ClientMessage', 'Request')]
    R.ob('C01.2', ('ClientMessage::Request', 'constructed only for the dispatch write path'), all(any(f.id == g.id for g in reach) for f, s in ctors) and len(ctors) == len({(P.unbound(x[3])) for x in sends}),
         'requests are built only to be written by the dispatch', [f.loc(s) for f, s in ctors])
    insert_m = table.one(table.inserting(), 'inserting')
    # which parameter of the inserting method is the key / the sender?
    key_param = None
    for g in table.bodies(insert_m):
        for bb, t in g.calls():
            if callee_is(t, 'HashMap::entry', 'HashMap::insert'):
                for r, p in P.root(P.operand(g, t['args'][1])):
                    if r[0] == 'param' and r[1] == insert_m.id:
                        key_param = r[2]
    if key_param is None:
        raise CannotDecide('client table insert: key parameter not identified')
    sender_param = None
    for k in range(1, insert_m.argc + 1):
        if 'oneshot::Sender' in insert_m.local_ty(k):
            sender_param = k
    if sender_param is None:
        raise CannotDecide('client table insert: sender parameter not identified')
    for g, sbb, st_, agg in sends:
        # the Request payload
        inner = P._field(agg, '0')
        idt = None
        for r, p in P.root(inner):
            ru = P.unbound(r)
            if ru[0] == 'agg' and path_matches(P._agg_rv(ru)['adt'], 'Request'):
                idt = P._field(r, 'id')
        if idt is None:
            R.ob('C01.2', ('dispatch poll', 'wire id'), False, 'cannot see the Request literal sent', [g.loc(st_)])
            continue
        ins = [(b2, t2) for b2, t2 in g.calls() if F.callee_fn(t2) is insert_m]
        R.ob('C01.2', ('dispatch poll', 'table insert at request send site'), len(ins) >= 1,
             'the body that writes the request also registers it in the in-flight table', [g.loc(st_)])
        for bb, t in ins:
            from .common import lifter
            lift_ = lifter(F, P, reach)
            kt = lift_(g, P.operand(g, t['args'][key_param - 1], at=bb))
            st = lift_(g, P.operand(g, t['args'][sender_param - 1], at=bb))
            common = same_root(P, idt, kt)
            ok_key = bool(common) and all(norm_path(px) == norm_path(py) for _, px, py in common) and len(P.root(idt)) == len(common)
            R.ob('C01.2', ('dispatch poll', 'wire id == table key'), ok_key,
                 'Request.id and the in-flight table key are the same value of the dequeued request', [g.loc(st_), g.loc(t)],
                 'wire id: %s; key: %s' % ([P.describe(r) + str(norm_path(p)) for r, p in P.root(idt)], [P.describe(r) + str(norm_path(p)) for r, p in P.root(kt)]))
            cs = same_root(P, idt, st)
            ok_s = bool(cs) and all(norm_path(px)[:-1] == norm_path(py)[:-1] for _, px, py in cs)
            R.ob('C01.2', ('dispatch poll', 'stored sender belongs to the same request'), ok_s,
                 'the completion sender stored under the key is a field of the same dequeued request', [g.loc(t)])
            q_ok = all(P.is_call(r, 'mpsc::Receiver::poll_recv') for r, p in P.root(kt))
            R.ob('C01.2', ('dispatch poll', 'request comes from the request queue'), q_ok,
                 'the transmitted request is an item received from the handle->dispatch queue', [g.loc(t)])

    # ---------------------------------------------------------------- C01.3 completion pairing
    completing = [m for m in table.removing() if table._has(m, 'oneshot::Sender::send')]
    keyed_completing = []
    for m in completing:
        for g in table.bodies(m):
            for _, t in g.calls():
                if callee_is(t, 'HashMap::remove', 'HashMap::remove_entry'):
                    rs = P.root(P.operand(g, t['args'][1]), through_params=table.is_helper, callers={b_.id for b_ in table.bodies(m)})
                    tm = {x.id for x in table.methods}
                    if rs and any(r[0] == 'param' and r[1] == m.id for r, _ in rs) and all(r[0] == 'param' and r[1] in tm for r, _ in rs) \
                            and m not in keyed_completing and not table.is_helper(m):
                        keyed_completing.append(m)
    comp = table.one(keyed_completing, 'completing removal (keyed)')
    ckey = cval = None
    for g in table.bodies(comp):
        for bb, t in g.calls():
            if callee_is(t, 'HashMap::remove', 'HashMap::remove_entry'):
                for r, p in P.root(P.operand(g, t['args'][1]), through_params=table.is_helper, callers={b_.id for b_ in table.bodies(comp)}):
                    if r[0] == 'param' and r[1] == comp.id:
                        ckey = r[2]
            if callee_is(t, 'oneshot::Sender::send'):
                for r, p in P.root(P.operand(g, t['args'][1]), through_params=table.is_helper, callers={b_.id for b_ in table.bodies(comp)}):
                    if r[0] == 'param' and r[1] == comp.id:
                        cval = r[2]
    R.ob('C01.4', ('client table completing removal', 'removes by its key parameter'), ckey is not None,
         'HashMap::remove is keyed by the method\'s id parameter', [comp.loc(comp.d)])
    R.ob('C01.4', ('client table completing removal', 'sends its value parameter'), cval is not None,
         'the removed entry\'s sender receives the method\'s value parameter', [comp.loc(comp.d)])
    if ckey is None or cval is None:
        return
    # sender used is the removed entry's
    for g in table.bodies(comp):
        for bb, t in g.calls():
            if callee_is(t, 'oneshot::Sender::send'):
                roots = P.root(P.operand(g, t['args'][0]), through_params=table.is_helper, callers={b_.id for b_ in table.bodies(comp)})
                ok = bool(roots) and all(P.is_call(r, *MAP_REMOVALS) and sender_field in P.fpath(p) for r, p in roots)
                R.ob('C01.4', ('client table completing removal', 'sender is the removed entry\'s'), ok,
                     'the sender completed is the one stored in the entry just removed', [g.loc(t)])
                rm = lambda x: any(P.is_call(r, *MAP_REMOVALS) for r, _ in P.root(x))
                from .common import own_sites
                sites_ = own_sites(F, table, comp, g, bb)
                gs = bool(sites_) and all(guarded_by_variant(F, P, g2, b2, rm, ['Some', 'Continue']) for g2, b2 in sites_)
                R.ob('C01.4', ('client table completing removal', 'miss path has no effect'), bool(gs),
                     'completion happens only on the Some edge of the removal; a miss neither sends nor removes anything else', [g.loc(t)])
    # miss path: every mutating call other than the remove itself is on the Some edge
    for g in table.bodies(comp):
        for bb, t in g.calls():
            if callee_is(t, 'DelayQueue::remove', 'DelayQueue::clear', 'HashMap::insert', 'HashMap::clear', 'HashMap::drain', 'util::Compact::compact', 'HashMap::shrink_to'):
                rm = lambda x: any(P.is_call(r, *MAP_REMOVALS) for r, _ in P.root(x))
                gs = guarded_by_variant(F, P, g, bb, rm, ['Some', 'Continue'])
                R.ob('C01.4', ('client table completing removal', 'mutation only on hit', strip_generics(t['callee'])), bool(gs),
                     'table mutation inside the completing removal is guarded by the hit edge', [g.loc(t)])
    # miss path: nothing that can trap.  A response naming an id that matches no outstanding call (late, duplicate, spurious) is chosen by the peer: a
    # panic there ends the dispatch and with it every other call
    rm = lambda x: any(P.is_call(r, *MAP_REMOVALS) for r, _ in P.root(x))
    traps = []
    n_miss_blocks = 0
    for g in table.bodies(comp):
        if g.kind == 'Closure':
            continue
        for i, b in enumerate(g.blocks):
            if b['cleanup']:
                continue
            if not guarded_by_variant(F, P, g, i, rm, ['None', 'Break']):
                continue
            n_miss_blocks += 1
            tm = b['term']
            if tm['k'] == 'assert':
                traps.append(g.loc(tm) + ' (%s)' % tm.get('msg', 'assert')[:40])
            if tm['k'] == 'call' and not tm.get('expn'):
                c = strip_generics(tm.get('callee') or '')
                if c.endswith('Option::unwrap') or c.endswith('Option::expect') or c.endswith('Result::unwrap') or c.endswith('Result::expect') or 'panicking::' in c \
                        or c.endswith('ops::Index::index') or c.endswith('ops::IndexMut::index_mut'):
                    traps.append(g.loc(tm) + ' (%s)' % c.split('::')[-1])
    R.ob('C01.4', ('client table completing removal', 'miss path cannot trap'), not traps and n_miss_blocks >= 1,
         'on the miss edge (no outstanding call has the id) there is no overflow-checked arithmetic, indexing, unwrap or panic: an unmatched response is discarded without ending the dispatch',
         traps or [comp.loc(comp.d)], 'blocks on the miss edge: %d' % n_miss_blocks)
    # call sites of the completing removal
    sites = [(g, bb, t) for g in F.fns.values() for bb, t in g.calls() if F.callee_fn(t) is comp]
    n_ok_sites = 0
    for g, bb, t in sites:
        kt = P.operand(g, t['args'][ckey - 1])
        vt = P.operand(g, t['args'][cval - 1])
        shapes = value_shapes(ctx, P, vt)
        kr = P.root(kt, through_params=True)
        from_queue = bool(kr) and all(P.is_call(r, 'mpsc::Receiver::poll_recv') for r, _ in kr)
        if shapes <= {'Err'}:
            R.ob('C01.5', ('completing removal call', F.enclosing_item(g).npath, 'Err-only'), True,
                 'this completion site can only deliver Err', [g.loc(t)], 'key from request queue item: %s' % from_queue)
            continue
        n_ok_sites += 1
        # must be the response path: key and value from the same transport item
        vr = P.root(vt, through_params=True)
        transport_item = lambda r: P.is_call(r, 'Stream::poll_next') and 'Fuse<' in (P.call_term(P.unbound(r)).get('self_ty') or '')
        same = [(x, px, py) for (x, px) in kr for (y, py) in vr if x == y]
        ok = bool(kr) and bool(vr) and all(transport_item(r) for r, _ in kr) and all(transport_item(r) for r, _ in vr) and bool(same) \
            and all(norm_path(px)[:-1] == norm_path(py)[:-1] for _, px, py in same)
        R.ob('C01.3', ('completing removal call', F.enclosing_item(g).npath, 'key and body from the same response'), ok,
             'a response completes the entry keyed by the request_id of that same response read from the transport', [g.loc(t)],
             'key: %s value: %s' % ([P.describe(r) + str(norm_path(p)) for r, p in kr], [P.describe(r) + str(norm_path(p)) for r, p in vr]))
        id_ok = all(P.fpath(p)[-1:] == ('request_id',) or (P.fpath(p) and 'id' in P.fpath(p)[-1]) for r, p in kr)
        R.ob('C01.3', ('completing removal call', F.enclosing_item(g).npath, 'key is the response id field'), id_ok,
             'the key is the id field of the response', [g.loc(t)])
    R.ob('C01.5', ('client', 'exactly one Ok-capable completion site'), n_ok_sites == 1,
         'exactly one completion site can deliver Ok: the response path', [g.loc(t) for g, bb, t in sites], 'found %d' % n_ok_sites)

    # ---------------------------------------------------------------- C01.5 all sender writes
    sends = [(f, bb, t) for f, bb, t in F.all_calls('oneshot::Sender::send') if f.npath.startswith('client::') or '::client::' in f.npath]
    n = 0
    for f, bb, t in sends:
        if any(f.id == g.id for g in table.bodies(comp)):
            continue
        n += 1
        shapes = value_shapes(ctx, P, P.operand(f, t['args'][1]))
        R.ob('C01.5', ('oneshot send', F.enclosing_item(f).npath, 'Err-only'), shapes <= {'Err'},
             'completion writers other than the response path deliver only Err', [f.loc(t)], 'shapes: %s' % sorted(shapes))
    # ---------------------------------------------------------------- C01.4b table keyed by the full id
    R.ob('C01.4', ('client table', 'keyed by the 64-bit request id'), table.key_ty == 'u64', 'the in-flight table is keyed by the full request id type (u64), so distinct ids never alias', [], 'key type: ' + table.key_ty)
    for m in table.methods:
        for g in table.bodies(m):
            for bb, t in g.calls():
                if callee_is(t, 'HashMap::entry', 'HashMap::remove', 'HashMap::remove_entry', 'HashMap::get', 'HashMap::get_mut', 'HashMap::contains_key', 'HashMap::insert'):
                    if len(t['args']) < 2:
                        continue
                    kr = P.root(P.operand(g, t['args'][1], at=bb), through_params='closures')
                    narrowed = [st for r, p in kr for st in p if st[0] == 't' and str(st[1]).startswith('cast:') and not str(st[1]).endswith(('u64', 'u128'))]
                    arith = [r for r, p in kr if P.unbound(r)[0] in ('bin', 'un')]
                    R.ob('C01.4', ('client table', m.npath.split('::')[-1], 'key is the id itself'), not narrowed and not arith,
                         'the table is looked up with the request id unchanged (no truncation, hashing or arithmetic on it)', [g.loc(t)], str(narrowed or [P.describe(r) for r in arith]))

    # ---------------------------------------------------------------- C01.6 an unmatched response does not disturb other calls
    from .wake import source_jobs, pending_states, source_ok
    from .shape_common import run_jobs
    poll_, reach_, jobs = source_jobs(F, P, ('R',))
    res = run_jobs(F, jobs)
    keys = pending_states(res['R'])
    bad = [k for k in keys if not source_ok('R', k)]
    R.ob('C01.6', ('dispatch poll', 'reading a response never leaves the read side unarmed'), not bad and len(keys) >= 2,
         'whether or not a response matched a call, the dispatch goes idle only with the transport read registered: a late, duplicate or unsolicited response cannot stall the responses behind it',
         [poll.loc(poll.d)], 'offending exit states (last read outcome, w_wait, drain, at_capacity): %s' % bad)
    R.count('states_explored', res['R']['stats'].get('states', 0))
    # ... and cannot end the dispatch: it completes Ok only when the transport's read side itself ended (or the write side was closed with nothing in flight),
    # never because a response was read (same exploration as C10.done, shared through the cache)
    from .C10 import DoneAut
    from .shape_common import find_cell_accessors
    from engine.shape import STAR
    acc_, fields_ = find_cell_accessors(F, P, 'client::RequestDispatch', lambda t: t.startswith('std::option::Option<') and 'ChannelError' in t)
    cell_ = sorted(fields_)[0] if fields_ else None
    cells_ = [((cell_, 'None'),), ((cell_, ('Some', STAR)),)] if cell_ else [()]
    d_ = run_jobs(F, [{'key': 'done', 'entry': poll.id, 'aut': ('custom', DoneAut), 'acc': acc_, 'cells': cells_}])['done']
    oks_ = [(ret, e[0]) for (ret, e, lab) in d_['exits'] if isinstance(ret, tuple) and ret[0] == 'Ready' and isinstance(ret[1], tuple) and ret[1][0] == 'Ok']
    bad_ = sorted({a for ret, a in oks_ if a[0] == 'Progress' and not (a[1] and a[2] is True)}, key=repr)
    R.ob('C01.6', ('dispatch poll', 'reading a response never ends the dispatch'), bool(oks_) and not bad_,
         'the dispatch does not complete because a response was read (only because the read side ended, or the write side was closed with nothing in flight): an unmatched response is not mistaken for the end of the stream',
         [poll.loc(poll.d)], 'offending (R last, closed, table empty): %s' % bad_)
    R.count('completion_send_sites', len(sends))
    if len(sends) < 2:
        raise CannotDecide('only %d completion send sites found (floor 2: the response path and at least one error path)' % len(sends))


EXTRA_CONFIGS = ('default', 'tokio1', 'serde1', 'serde-transport')   # feature configurations re-analysed in the thorough tier
META = {
    'level': 'other',
    'technique': 'static provenance / who-may-write analysis over type-checked MIR (custom rustc driver)',
    'text': 'Decides, for every path of the real build, the structural pairing clauses that make response routing correct: single atomic id source shared by clones; '
            'wire id = table key = stored sender of one dequeued request; response completes the entry keyed by its own id; completing removal keyed by parameter with an '
            'effect-free miss path; all other completion writers are Err-only. The id counter only ever advances: no integer atomic of the client is written other than by fetch_add, so an id once drawn is never handed out again. These are necessary conditions visible in the code shape; the dynamic behaviour of '
            'HashMap/oneshot is trusted, so this is a sound argument for mis-routing bugs introduced in tarpc code, not a run-time proof.',
    'note': 'Trusted: rustc MIR construction, std HashMap, tokio oneshot/mpsc semantics. Not decided: id uniqueness across usize wrap-around.',
}
