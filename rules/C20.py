"""C20 Load-balancing and retry stubs — index expressions, shared cursor, retry loop shape."""
from engine.facts import CannotDecide, callee_is, strip_generics, path_matches, ty_head
from engine.prov import const_int
from engine import cfg
from .common import reachable_local_fns, norm_path

EXTRA_CONFIGS = ('default', 'tokio1', 'serde1', 'serde-transport')   # feature configurations re-analysed in the thorough tier
META = {
    'level': 'other',
    'technique': 'static provenance rules over MIR: index expression shape, atomic RMW, who-may-write, loop-shape (dominator) rules',
    'text': 'Decides the code shapes that imply the dispatch promises for every interleaving given atomic RMW semantics: round-robin index = fetch_add(cursor,1)[+const] % len(elements) '
            'indexing that same vector with the cursor behind an Arc shared by clones; consistent-hash index = hash(request) % stubs_len with stubs_len written only by the constructors '
            'from the stored vector\'s len and a read-only hasher; retry: attempts numbered from 1 by a RangeFrom advanced once per iteration, each attempt re-sends Arc::clone of the one '
            'request with the same context, the policy sees (&result, attempt) and the value returned is the last result unmodified.',
    'note': 'Trusted: atomic fetch_add semantics, std Hash/BuildHasher determinism, Vec indexing. Not decided: wrap-around of the cursor at 2^64 calls.',
}

EXPLANATION = META['text']


def strip_conv(P, t):
    """peel conversions/unwraps; return list of inner terms (alternatives)"""
    out = []
    for r, p in P.root(t):
        if all(s[0] == 't' for s in p):
            out.append(r)
        else:
            out.append(('unknown', 'projected'))
    return out


def run(ctx):
    F, P, R = ctx.F, ctx.P, ctx.run
    R.explanation = EXPLANATION
    R.rule_text = 'one obligation per (stub, clause); provenance terms are matched structurally (bin Rem / call fetch_add / Vec::len), never textually'
    R.assumptions = ['atomic fetch_add is a single RMW', 'Hash / BuildHasher are deterministic for a fixed hasher state']
    R.info['configs'] = ['full']

    # ------------------------------------------------------------------ round robin
    rr = F.trait_method('client::stub::Stub', 'RoundRobin', 'call')
    bodies = reachable_local_fns(F, rr)
    idx_sites = [(f, bb, t) for f in bodies for bb, t in f.calls() if callee_is(t, 'std::ops::Index::index') and 'Vec<' in (t.get('self_ty') or '')]
    R.ob('C20.rr', ('RoundRobin::call', 'selects a backend by indexing'), len(idx_sites) == 1,
         'exactly one backend-selection (Vec index) site is reachable from the round-robin call', [f.loc(t) for f, _, t in idx_sites] or [rr.loc(rr.d)])
    for f, bb, t in idx_sites:
        vec_roots = P.root(P.operand(f, t['args'][0]))
        idx = P.operand(f, t['args'][1])
        alts = strip_conv(P, idx)
        ok = bool(alts)
        det = []
        for a in alts:
            if a[0] != 'bin' or a[1] != 'Rem':
                ok = False
                det.append('index is %s, not a remainder' % P.describe(a))
                continue
            num, den = a[2], a[3]
            # numerator: fetch_add(cursor, 1) [+ const]
            nalts = strip_conv(P, num)
            for n in nalts:
                if n[0] == 'bin' and n[1] in ('Add', 'AddUnchecked', 'AddWithOverflow') and (const_int(n[3]) is not None or const_int(n[2]) is not None):
                    n = n[2] if const_int(n[3]) is not None else n[3]
                    n = (strip_conv(P, n) or [n])[0]
                if not (n[0] == 'call' and (P.call_name(n) or '').endswith('::fetch_add')):
                    ok = False
                    det.append('cursor advance is %s, not an atomic fetch_add' % P.describe(n))
                    continue
                args = P.call_args(n)
                if const_int(args[1]) != 1:
                    ok = False
                    det.append('fetch_add step is not 1')
                cur_roots = P.root(args[0])
                if not all(r[0] == 'param' for r, _ in cur_roots):
                    ok = False
                    det.append('cursor is not a field of self')
                else:
                    R.info.setdefault('rr_cursor_field', '.'.join(str(x) for x in P.fpath(cur_roots[0][1])))
            # denominator: len of the same vector
            for d in strip_conv(P, den):
                if not (d[0] == 'call' and callee_is(P.call_term(d), 'Vec::len', 'slice::len')):
                    ok = False
                    det.append('modulus is %s, not the length of the backend vector' % P.describe(d))
                    continue
                lr = P.root(P.call_args(d)[0])
                if [(r, P.fpath(p)) for r, p in lr] != [(r, P.fpath(p)) for r, p in vec_roots]:
                    ok = False
                    det.append('modulus is the length of a different vector than the one indexed')
        R.ob('C20.rr', ('RoundRobin::call', 'index = fetch_add(cursor,1) % len(backends)'), ok,
             'round-robin index is (atomic fetch_add(cursor, 1) [+ const]) % len(elements) of the indexed vector', [f.loc(t)], '; '.join(det))
    # no plain load/store of the cursor anywhere in the module
    ls = [(f, bb, t) for f in F.fns.values() if 'round_robin' in f.id for bb, t in f.calls()
          if callee_is(t, 'Atomic::load', 'Atomic::store', 'Atomic::swap', 'Atomic::compare_exchange', 'Atomic::get_mut', 'Atomic::into_inner')]
    R.ob('C20.rr', ('round_robin', 'cursor only advanced by fetch_add'), not ls,
         'the cursor is never read or written except through the one fetch_add', [f.loc(t) for f, _, t in ls] or [rr.loc(rr.d)])
    # cursor shared by Clone: on the type path RoundRobin -> ... -> Atomic there is an Arc
    def type_path_has_arc(adt_path, seen=()):
        a = F.adts.get(adt_path)
        if a is None or adt_path in seen:
            return None
        for v in a['variants']:
            for name, ty, _ in v['fields']:
                if 'atomic::Atomic' in ty:
                    return 'Arc<' in ty
                h, args = ty_head(ty)
                via_arc = h.endswith('sync::Arc')
                inner = ty_head(args[0])[0] if (via_arc and args) else h
                r = type_path_has_arc(inner, seen + (adt_path,))
                if r is not None:
                    return r or via_arc
        return None
    rr_adt = [p for p in F.adts if path_matches(p, 'RoundRobin')]
    if len(rr_adt) != 1:
        raise CannotDecide('RoundRobin ADT')
    has_arc = type_path_has_arc(rr_adt[0])
    R.ob('C20.rr', ('RoundRobin', 'cursor behind an Arc'), bool(has_arc),
         'clones of the stub share one cursor: the atomic lives behind an Arc on the type path from RoundRobin', [rr.loc(rr.d)])
    # hand-written Clone impls on that path must not rebuild the state
    for im in F.trait_impls('Clone'):
        if im['self_head'] and 'round_robin' in im['self_head'] and not im['from_expansion']:
            for name, mid in im['methods']:
                g = F.fns.get(mid)
                if g is None:
                    continue
                bad = [s for _, _, s in g.aggregates() if s['rv']['adt'].endswith('State')] + [t for _, t in g.calls() if callee_is(t, 'Arc::new', 'Atomic::new')]
                R.ob('C20.rr', ('round_robin Clone', im['self_head']), not bad, 'a hand-written Clone shares (does not rebuild) the cursor', [g.loc(g.d)])

    # ------------------------------------------------------------------ consistent hash
    ch = F.trait_method('client::stub::Stub', 'ConsistentHash', 'call')
    chb = reachable_local_fns(F, ch)
    idx_sites = [(f, bb, t) for f in chb for bb, t in f.calls() if callee_is(t, 'std::ops::Index::index') and 'Vec<' in (t.get('self_ty') or '')]
    R.ob('C20.ch', ('ConsistentHash::call', 'selects a backend by indexing'), len(idx_sites) == 1,
         'exactly one backend-selection site is reachable from the consistent-hash call', [f.loc(t) for f, _, t in idx_sites] or [ch.loc(ch.d)])
    adt = F.adt('ConsistentHash')
    fields = adt['variants'][0]['fields']
    len_field = [x[0] for x in fields if x[1] == 'u64']
    vec_field = [x[0] for x in fields if x[1].startswith('std::vec::Vec<')]
    hasher_field = [x[0] for x in fields if x[0] not in len_field + vec_field]
    if len(len_field) != 1 or len(vec_field) != 1 or len(hasher_field) != 1:
        raise CannotDecide('ConsistentHash fields by type')
    len_field, vec_field, hasher_field = len_field[0], vec_field[0], hasher_field[0]
    for f, bb, t in idx_sites:
        vr = P.root(P.operand(f, t['args'][0]))
        ok = all(r[0] == 'param' and P.fpath(p)[-1:] == (vec_field,) for r, p in vr) and bool(vr)
        det = []
        for a in strip_conv(P, P.operand(f, t['args'][1])):
            if a[0] != 'bin' or a[1] != 'Rem':
                ok = False
                det.append('index is %s' % P.describe(a))
                continue
            for d in strip_conv(P, a[3]):
                pass
            dr = P.root(a[3])
            if not (dr and all(r[0] == 'param' and P.fpath(p)[-1:] == (len_field,) for r, p in dr)):
                ok = False
                det.append('modulus is not self.%s' % len_field)
            # numerator: Hasher::finish of a hasher built from self.hasher and fed the request
            for n in strip_conv(P, a[2]):
                n2 = P.expand(n) if n[0] == 'call' else n
                fin = [r for r, p in P.root(n2)]
                for r in fin:
                    r0 = P.unbound(r)
                    if not (r0[0] == 'call' and callee_is(P.call_term(r0), 'Hasher::finish')):
                        ok = False
                        det.append('hash value is %s, not Hasher::finish' % P.describe(r0))
                        continue
                    hf = F.fns[r0[1]]
                    # in the hashing body: build_hasher(&self.hasher) and Hash::hash(req, &mut hasher)
                    bh = [tt for _, tt in hf.calls() if callee_is(tt, 'BuildHasher::build_hasher')]
                    hh = [tt for _, tt in hf.calls() if callee_is(tt, 'Hash::hash')]
                    okb = len(bh) == 1 and all(rr[0] == 'param' and P.fpath(pp)[-1:] == (hasher_field,) for rr, pp in P.root(P.operand(hf, bh[0]['args'][0])))
                    okh = len(hh) == 1 and all(rr[0] == 'param' for rr, pp in P.root(P.operand(hf, hh[0]['args'][0])))
                    # the request hashed is the request passed to the call
                    if n[0] == 'call':
                        hargs = P.call_args(n)
                        req_ok = len(hargs) >= 2 and all(rr[0] in ('param',) or (rr[0] == 'field') for rr, pp in P.root(hargs[1]))
                    else:
                        req_ok = True
                    if not (okb and okh and req_ok):
                        ok = False
                        det.append('hash is not computed from self.%s state over the request' % hasher_field)
        R.ob('C20.ch', ('ConsistentHash::call', 'index = hash(request) % stubs_len'), ok,
             'consistent-hash index is Hasher::finish(build_hasher(self.hasher) fed the request) %% self.%s, indexing self.%s' % (len_field, vec_field), [f.loc(t)], '; '.join(det))
    # constructors: stubs_len from len() of the stored vector
    ctors = list(F.all_aggregates('ConsistentHash'))
    R.ob('C20.ch', ('ConsistentHash', 'constructors found'), len(ctors) >= 2, 'both constructors are analysed', [f.loc(s) for f, _, _, s in ctors])
    for f, i, j, s in ctors:
        agg = ('agg', f.id, i, j)
        lt = P._field(agg, len_field)
        vt = P._field(agg, vec_field)
        ok = True
        det = []
        lroots = P.root(lt)
        for r, p in lroots:
            if not P.is_call(r, 'Vec::len', 'slice::len'):      # possibly inside a private length helper that is handed the vector (as a slice)
                ok = False
                det.append('%s from %s' % (len_field, P.describe(r)))
                continue
            a = P.root(P.args_of(r)[0])
            b = P.root(vt)
            if {P.unbound(x) for x, _ in a} != {P.unbound(x) for x, _ in b}:
                ok = False
                det.append('length of a different vector than the one stored')
        R.ob('C20.ch', ('ConsistentHash ctor', F.enclosing_item(f).npath, 'stubs_len = stubs.len()'), ok and bool(lroots),
             'the modulus is the length of the very vector stored', [f.loc(s)], '; '.join(det))
    # who may write the fields afterwards
    writes = []
    for f in F.fns.values():
        for i, j, s in f.stmts():
            pl = s['pl']
            for e in pl['p']:
                if e[0] == 'f' and e[2] in (len_field, vec_field, hasher_field):
                    base_ty = f.local_ty(pl['l'])
                    if 'ConsistentHash' in base_ty:
                        writes.append((f, s))
        for bb, t in f.calls():
            # &mut self.stubs passed to anything (push/clear/...)
            if t['args'] and t['args'][0]['k'] in ('move', 'copy'):
                at = (t.get('arg_tys') or [''])[0]
                if at.startswith('&mut ') and 'ConsistentHash' not in at:
                    for r, p in P.root(P.operand(f, t['args'][0])):
                        if r[0] == 'param' and 'ConsistentHash' in F.fns[r[1]].local_ty(r[2]) and P.fpath(p)[-1:] in ((vec_field,), (len_field,), (hasher_field,)):
                            writes.append((f, t))
    R.ob('C20.ch', ('ConsistentHash', 'fields immutable after construction'), not writes,
         'stubs, stubs_len and the hasher are never written or mutably borrowed after construction', [f.loc(x) for f, x in writes] or [ch.loc(ch.d)])

    # ------------------------------------------------------------------ retry
    rt = F.trait_method('client::stub::Stub', 'Retry', 'call')
    rbodies = [b for b in F.with_descendants(rt) if b.coroutine]
    if len(rbodies) != 1:
        raise CannotDecide('Retry::call coroutine body: %d' % len(rbodies))
    b = rbodies[0]
    ranges = [(i, j, s) for i, j, s in b.aggregates('std::ops::RangeFrom')]
    manual = None
    if not ranges:
        # alternative idiom: `let mut i = 1; loop { ...; i += 1 }` — a local initialised with the constant 1 outside the loop and
        # incremented by the constant 1 on the retry edge
        for l in range(len(b.locals)):
            defs = [d for d in P.defs(b).get(l, []) if d[0] == 'stmt' and not d[3]]
            if b.local_ty(l) not in ('u32', 'u64', 'usize', 'i32') or len(defs) != 2:
                continue
            inits = [d for d in defs if const_int(P.operand(b, b.blocks[d[1]]['stmts'][d[2]]['rv']['op'])) == 1] if all(b.blocks[d[1]]['stmts'][d[2]]['rv']['k'] in ('use', 'bin') for d in defs) else []
            inits = []
            incs = []
            for d in defs:
                rv = b.blocks[d[1]]['stmts'][d[2]]['rv']
                if rv['k'] == 'use' and rv['op']['k'] == 'const' and const_int(P.operand(b, rv['op'])) == 1 and not cfg.on_cycle(b, d[1]):
                    inits.append(d)
                elif rv['k'] == 'use' and rv['op']['k'] in ('move', 'copy'):
                    # i = move (tmp.0) where tmp = AddWithOverflow(i, 1)
                    src = P.operand(b, rv['op'], at=d[1])
                    if src[0] == 'field' and src[1][0] == 'bin' and src[1][1].startswith('Add') and const_int(src[1][3]) == 1 and cfg.on_cycle(b, d[1]):
                        incs.append(d)
            if len(inits) == 1 and len(incs) == 1:
                manual = (l, inits[0], incs[0])
    ok = (len(ranges) == 1 and const_int(P.operand(b, ranges[0][2]['rv']['ops'][0])) == 1) or manual is not None
    R.ob('C20.retry', ('Retry::call', 'attempts numbered from 1'), ok, 'the attempt counter starts at the constant 1 (a RangeFrom, or a local incremented by 1 per retry)',
         [b.loc(s) for _, _, s in ranges] or [b.loc(b.d)])
    nexts = [(bb, t) for bb, t in b.calls() if callee_is(t, 'Iterator::next') and 'RangeFrom' in (t.get('self_ty') or '')]
    if manual is not None:
        return _retry_manual(ctx, b, manual)
    inner = [(bb, t) for bb, t in b.calls() if callee_is(t, 'client::stub::Stub::call')]
    if not inner:
        for bb, t in b.calls():
            h = F.callee_fn(t)
            if h is not None and any(callee_is(t2, 'client::stub::Stub::call') for x in F.with_descendants(h) for _, t2 in x.calls()):
                raise CannotDecide('the retry loop delegates the attempt to the helper %s: the loop rules are stated over the loop\'s own body' % h.npath)
    policy = [(bb, t) for bb, t in b.calls() if callee_is(t, 'Fn::call', 'FnMut::call_mut', 'FnOnce::call_once') and not b.blocks[bb]['term'].get('expn')]
    policy_terms = {}
    for bb, t in policy:
        targ_ = P.operand(b, t['args'][1])
        policy_terms[bb] = (P._field(targ_, 0, 0), P._field(targ_, 1, 1))
    if not policy:
        # the policy may be consulted through a thin private helper of the stub: one policy call whose (result, attempt) arguments are the helper's own
        # parameters and whose answer is what the helper returns
        for bb, t in b.calls():
            h = F.callee_fn(t)
            if h is None or h.coroutine:
                continue
            hp = [(b2, t2) for b2, t2 in h.calls() if callee_is(t2, 'Fn::call', 'FnMut::call_mut', 'FnOnce::call_once') and not h.blocks[b2]['term'].get('expn')]
            if len(hp) != 1:
                continue
            b2, t2 = hp[0]
            rets_ = P.root(P._local_whole(h, 0))
            if not (rets_ and all(P.unbound(x) == ('call', h.id, b2) for x, _ in rets_)):
                continue
            tup = P.operand(h, t2['args'][1], at=b2)
            ks = []
            for k_ in (0, 1):
                rs_ = P.root(P._field(tup, k_, k_))
                if rs_ and all(x[0] == 'param' and x[1] == h.id and not norm_path(q) for x, q in rs_) and len({x[2] for x, _ in rs_}) == 1:
                    ks.append(rs_[0][0][2])
            if len(ks) == 2:
                policy.append((bb, t))
                policy_terms[bb] = (P.operand(b, t['args'][ks[0] - 1], at=bb), P.operand(b, t['args'][ks[1] - 1], at=bb))
    R.ob('C20.retry', ('Retry::call', 'one counter advance, one inner call, one policy call per iteration'),
         len(nexts) == 1 and len(inner) == 1 and len(policy) == 1, 'the loop body advances the counter once, issues one attempt and asks the policy once',
         [b.loc(t) for _, t in nexts + inner + policy], 'next=%d inner=%d policy=%d' % (len(nexts), len(inner), len(policy)))
    if len(nexts) == 1 and len(inner) == 1 and len(policy) == 1:
        nb, nt = nexts[0]
        ib, it = inner[0]
        pb, pt = policy[0]
        # ordering inside the loop: next dominates inner dominates policy; all on a cycle
        R.ob('C20.retry', ('Retry::call', 'order next -> attempt -> policy'), cfg.dominates(b, nb, ib) and cfg.dominates(b, ib, pb) and cfg.on_cycle(b, nb),
             'each iteration: advance counter, then attempt, then policy', [b.loc(nt), b.loc(it), b.loc(pt)])
        # attempt args
        a = it['args']
        stub_ok = all(r[0] == 'param' for r, p in P.root(P.operand(b, a[0])))
        ctx_ok = all(r[0] == 'param' and (not P.fpath(p) or P.fpath(p)[-1] == 'ctx' or True) for r, p in P.root(P.operand(b, a[1])))
        ctx_roots = P.root(P.operand(b, a[1]))
        ctx_ok = bool(ctx_roots) and all(r[0] == 'param' and 'Context' in F.fns[r[1]].local_ty(r[2]) for r, p in ctx_roots)
        req_roots = P.root(P.operand(b, a[2]), stop_tags=('box',))
        req_ok = bool(req_roots)
        for r, p in req_roots:
            if not (r[0] == 'call' and callee_is(P.call_term(r), 'Arc::new') and ('t', 'clone') in p):
                req_ok = False
            else:
                # Arc::new happens outside the loop (once)
                if cfg.on_cycle(b, r[2]):
                    req_ok = False
        R.ob('C20.retry', ('Retry::call', 'attempt re-sends the identical request'), stub_ok and ctx_ok and req_ok,
             'each attempt calls the inner stub with the caller\'s context and Arc::clone of the one request wrapped once before the loop', [b.loc(it)],
             'ctx:%s req:%s' % ([P.describe(r) for r, _ in ctx_roots], [P.describe(r) + str(p) for r, p in req_roots]))
        # policy args: (&result, i)
        r0, r1 = policy_terms[pb]
        res_roots = P.root(r0)
        res_ok = bool(res_roots) and all(r == ('call', b.id, ib) and ('t', 'await') in p for r, p in res_roots)
        i_roots = P.root(r1)
        i_ok = bool(i_roots) and all(r == ('call', b.id, nb) and norm_path(p) == (('v', 'Some'), ('f', 0)) for r, p in i_roots)
        R.ob('C20.retry', ('Retry::call', 'policy sees (&result, attempt)'), res_ok and i_ok,
             'the policy receives the awaited result of this attempt and this iteration\'s counter value', [b.loc(pt)],
             'result:%s i:%s' % ([P.describe(r) + str(p) for r, p in res_roots], [P.describe(r) + str(p) for r, p in i_roots]))
        # returned value = last result, unmodified
        ret_roots = P.root(P._local_whole(b, 0))
        ret_ok = bool(ret_roots) and all(r == ('call', b.id, ib) and ('t', 'await') in p and norm_path(p) == (('v', 'Ready'), ('f', 0)) for r, p in ret_roots)
        R.ob('C20.retry', ('Retry::call', 'returns the last result unchanged'), ret_ok,
             'the value returned is the awaited result of the last attempt, unmodified', [b.loc(b.d)], str([P.describe(r) + str(p) for r, p in ret_roots]))
        # return only on the policy's false edge; continue on true
        sw = b.blocks[pb]['term']['target']
        swt = b.blocks[sw]['term']
        ok = swt['k'] == 'switch'
        if ok:
            false_t = dict((v, x) for v, x in swt['targets']).get(0)
            true_t = swt['otherwise']
            rets = cfg.exits(b)
            # the false edge reaches return without passing the loop head again; true edge cannot return without a new attempt
            ok = false_t is not None and bool(set(rets) & cfg.reachable(b, false_t, avoid={ib})) and not (set(rets) & cfg.reachable(b, true_t, avoid={ib}))
        from engine.asyncs import await_of_call
        aw = await_of_call(P, b, ib)
        ok2 = aw is not None and aw['ready_bb'] is not None and cfg.all_paths_pass(b, aw['ready_bb'], cfg.exits(b), {pb})
        R.ob('C20.retry', ('Retry::call', 'every result is shown to the policy before returning'), ok2,
             'no path from an attempt\'s completion to the return bypasses the policy (the stub never stops retrying on its own)', [b.loc(pt)])
        R.ob('C20.retry', ('Retry::call', 'retry iff the policy says so'), ok,
             'the loop returns on the policy\'s false edge and re-issues the request on its true edge', [b.loc(pt)])


def _retry_manual(ctx, b, manual):
    """retry loop written with a manual counter: same clauses, the counter read replaces the RangeFrom item"""
    F, P, R = ctx.F, ctx.P, ctx.run
    from engine.asyncs import await_of_call
    l, init, inc = manual
    inner = [(bb, t) for bb, t in b.calls() if callee_is(t, 'client::stub::Stub::call')]
    policy = [(bb, t) for bb, t in b.calls() if callee_is(t, 'Fn::call', 'FnMut::call_mut', 'FnOnce::call_once') and not b.blocks[bb]['term'].get('expn')]
    R.ob('C20.retry', ('Retry::call', 'one counter advance, one inner call, one policy call per iteration'), len(inner) == 1 and len(policy) == 1,
         'the loop body issues one attempt, asks the policy once and advances the counter once on the retry edge', [b.loc(t) for _, t in inner + policy])
    if len(inner) != 1 or len(policy) != 1:
        return
    (ib, it), (pb, pt) = inner[0], policy[0]
    R.ob('C20.retry', ('Retry::call', 'order next -> attempt -> policy'), cfg.dominates(b, ib, pb) and cfg.on_cycle(b, ib) and cfg.dominates(b, pb, inc[1]),
         'each iteration: attempt, then policy; the counter is advanced only after the policy asked for a retry', [b.loc(it), b.loc(pt)])
    a = it['args']
    ctx_roots = P.root(P.operand(b, a[1], at=ib))
    ctx_ok = bool(ctx_roots) and all(r[0] == 'param' and 'Context' in F.fns[r[1]].local_ty(r[2]) for r, p in ctx_roots)
    req_roots = P.root(P.operand(b, a[2], at=ib), stop_tags=('box',))
    req_ok = bool(req_roots) and all(r[0] == 'call' and callee_is(P.call_term(r), 'Arc::new') and ('t', 'clone') in p and not cfg.on_cycle(b, r[2]) for r, p in req_roots)
    R.ob('C20.retry', ('Retry::call', 'attempt re-sends the identical request'), ctx_ok and req_ok,
         'each attempt calls the inner stub with the caller\'s context and Arc::clone of the one request wrapped once before the loop', [b.loc(it)])
    targ = P.operand(b, pt['args'][1], at=pb)
    res_roots = P.root(P._field(targ, 0, 0))
    res_ok = bool(res_roots) and all(r == ('call', b.id, ib) and ('t', 'await') in p for r, p in res_roots)
    from engine.asyncs import base_local
    tup = [s for i, j, s in b.stmts() if s['rv']['k'] == 'agg' and s['rv']['adt'] == 'tuple' and s['pl']['l'] == pt['args'][1]['pl']['l']]
    i_ok = bool(tup) and base_local(b, P, tup[0]['rv']['ops'][1]) == l
    R.ob('C20.retry', ('Retry::call', 'policy sees (&result, attempt)'), res_ok and i_ok, 'the policy receives the awaited result of this attempt and the current counter value', [b.loc(pt)])
    ret_roots = P.root(P._local_whole(b, 0))
    ret_ok = bool(ret_roots) and all(r == ('call', b.id, ib) and ('t', 'await') in p for r, p in ret_roots)
    R.ob('C20.retry', ('Retry::call', 'returns the last result unchanged'), ret_ok, 'the value returned is the awaited result of the last attempt, unmodified', [b.loc(b.d)])
    aw = await_of_call(P, b, ib)
    ok2 = aw is not None and aw['ready_bb'] is not None and cfg.all_paths_pass(b, aw['ready_bb'], cfg.exits(b), {pb})
    R.ob('C20.retry', ('Retry::call', 'every result is shown to the policy before returning'), ok2, 'no path from an attempt\'s completion to the return bypasses the policy', [b.loc(pt)])
    sw = b.blocks[pb]['term']['target']
    swt = b.blocks[sw]['term']
    ok = swt['k'] == 'switch'
    if ok:
        false_t = dict((v, x) for v, x in swt['targets']).get(0)
        true_t = swt['otherwise']
        rets = cfg.exits(b)
        ok = false_t is not None and bool(set(rets) & cfg.reachable(b, false_t, avoid={ib})) and not (set(rets) & cfg.reachable(b, true_t, avoid={ib})) \
            and cfg.all_paths_pass(b, true_t, {ib}, {inc[1]})
    R.ob('C20.retry', ('Retry::call', 'retry iff the policy says so'), ok, 'the loop returns on the policy\'s false edge and, on its true edge, advances the counter and re-issues the request', [b.loc(pt)])
