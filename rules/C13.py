"""C13 Per-key channel limit is never exceeded nor over-applied — admission fact, dead-check before forgetting a key."""
from engine.facts import CannotDecide, callee_is, path_matches, strip_generics, ty_head
from engine import cfg
from .common import (reachable_local_fns, norm_path, guarded_by_variant, guarded_by_bool, cmp_facts, SWAP, result_of, in_module)

EXTRA_CONFIGS = ('default', 'tokio1', 'serde1', 'serde-transport')   # feature configurations re-analysed in the thorough tier
META = {
    'level': 'other',
    'technique': 'static comparison-fact and edge-guard rules over MIR of MaxChannelsPerKey; type-level ownership query (Arc in channel, Weak in map); Drop provenance',
    'text': 'Decides: the per-key table is indexed by the key type itself and consulted with the key function\'s result unchanged (different keys never share a count); a tracker (capacity token) is handed out only on the Vacant edge of the key lookup or under the fact strong_count < channels_per_key read from that key\'s own entry; '
            'each yielded channel owns an Arc of its key\'s tracker while the map holds only a Weak, and the tracker\'s Drop reports its own key, so the strong count is the number of live '
            'channels of the key; a key\'s entry is forgotten on a close notification only under a dead-check of that very entry (defect D3, fixed: a stale notification could erase a live '
            'entry); the stream returns Pending only when both the listener and the notification queue returned Pending (both registered).',
    'note': 'Trusted: Arc/Weak strong_count semantics, tokio unbounded mpsc. Limit n >= 1 as in the property.',
}


class PerKeyAut:
    """(last listener outcome, last notification outcome, admitted-but-not-yet-returned)"""
    name = 'perkey'

    def init(self):
        return ('unpolled', 'unpolled', False)

    def step(self, aut, ev, shape, site, X):
        from engine.shape import poll_outcome
        l, d, adm = aut
        if ev[0] == 'R':
            if adm:
                X.violation(('LISTENER_POLLED_WITH_ADMITTED_CHANNEL',), site)
            return (poll_outcome(shape), d, False)
        if ev[0] == 'K':
            o = 'Pending' if shape == 'Pending' else ('Progress' if isinstance(shape, tuple) and shape[0] == 'Ready' else 'Pending' if shape == 'Pending' else 'Progress')
            return (l, o, adm)
        if ev == ('A', 'admit'):
            return (l, d, isinstance(shape, tuple) and shape[0] == 'Ok')
        return aut


def _boundary_for(adm_id):
    def boundary(t, f, callee_f, level, nlevel):
        if callee_f is not None and callee_f.id == adm_id:
            return ('A', 'admit')
        return None
    return boundary


def run(ctx):
    F, P, R = ctx.F, ctx.P, ctx.run
    R.explanation = META['text']
    R.rule_text = 'one obligation per (entry point, clause)'
    R.assumptions = ['Weak::strong_count is exact when all owners live on the polling task or have been dropped']
    R.info['configs'] = ['full']
    pn = F.trait_method('Stream', 'MaxChannelsPerKey', 'poll_next')
    reach = reachable_local_fns(F, pn)
    R.count('functions_analysed', len(reach))
    adt = F.adt('MaxChannelsPerKey')
    fields = adt['variants'][0]['fields']
    map_f = [x for x in fields if ty_head(x[1])[0].endswith('HashMap')]
    lim_f = [x for x in fields if x[1] == 'u32']
    if len(map_f) != 1 or len(lim_f) != 1:
        raise CannotDecide('MaxChannelsPerKey fields by type')
    map_field, lim_field = map_f[0][0], lim_f[0][0]
    # (2) ownership by types
    val_ty = ty_head(map_f[0][1])[1][1]
    R.ob('C13.own', ('MaxChannelsPerKey', 'map holds only Weak'), ty_head(val_ty)[0].endswith('sync::Weak'), 'the listener\'s table does not keep trackers alive', [], val_ty)
    tc = F.adt('TrackedChannel')
    arc = [x for x in tc['variants'][0]['fields'] if ty_head(x[1])[0].endswith('sync::Arc') and 'Tracker' in x[1]]
    R.ob('C13.own', ('TrackedChannel', 'owns an Arc of its tracker'), len(arc) == 1, 'a yielded channel keeps its key\'s tracker alive for exactly its own lifetime', [])
    R.ob('C13.own', ('TrackedChannel / Tracker', 'not Clone'), not F.has_impl('Clone', 'TrackedChannel') and not F.has_impl('Clone', 'channels_per_key::Tracker'),
         'neither the channel nor the tracker can be duplicated', [])
    td = F.trait_method('Drop', 'channels_per_key::Tracker', 'drop')
    sends = [(bb, t) for bb, t in td.calls() if callee_is(t, 'mpsc::UnboundedSender::send')]
    ok = len(sends) == 1
    if ok:
        bb, t = sends[0]
        vr = P.root(P.operand(td, t['args'][1], at=bb))
        ok = bool(vr) and all(r == ('param', td.id, 1) and 'key' in P.fpath(p) for r, p in vr)
    R.ob('C13.own', ('Drop for Tracker', 'reports its own key'), ok, 'when the last channel of a key closes, that key is reported to the listener', [td.loc(td.d)])

    # (0) channels are counted per key value: the table is indexed by the key itself (compared with Eq), not by something derived from it
    ktys = ty_head(map_f[0][1])[1]
    tracker_arg = ty_head(ty_head(val_ty)[1][0])[1][:1] if ty_head(val_ty)[1] else []
    rx = [ty_head(x[1])[1][0] for x in fields if ty_head(x[1])[0].endswith('mpsc::UnboundedReceiver') and ty_head(x[1])[1]]
    R.ob('C13.key', ('MaxChannelsPerKey', 'table indexed by the key type'), bool(ktys) and bool(tracker_arg) and len(rx) == 1 and ktys[0] == tracker_arg[0] == rx[0],
         'the per-key table is indexed by the key type itself — the type the trackers carry and the close notifications report — so two different keys never share a count', [],
         'map key type %s, tracker key type %s, notification type %s' % (ktys[:1], tracker_arg, rx))
    lookups = [(g, bb, t) for g in reach for bb, t in g.calls() if callee_is(t, 'HashMap::entry', 'HashMap::get', 'HashMap::get_mut', 'HashMap::remove', 'HashMap::remove_entry', 'HashMap::contains_key', 'HashMap::insert')]
    for g, bb, t in lookups:
        kr = P.root(P.operand(g, t['args'][1], at=bb), through_params=True)
        ok = bool(kr)
        for r, p_ in kr:
            vp = norm_path(p_)
            if P.is_call(r, 'Fn::call', 'FnMut::call_mut', 'FnOnce::call_once') and not vp:
                continue    # the key function's result, unchanged
            if P.is_call(r, 'mpsc::UnboundedReceiver::poll_recv') and vp == (('v', 'Ready'), ('f', 0), ('v', 'Some'), ('f', 0)):
                continue    # the key reported by a dropped tracker
            ok = False
        R.ob('C13.key', (F.enclosing_item(g).npath.split('::')[-1], strip_generics(t['callee']).split('::')[-1], 'looked up by the key itself'), ok,
             'the table is consulted with the key the key function produced for the channel (or the key a dropped tracker reported), unchanged', [g.loc(t)],
             str([P.describe(r) + str(list(norm_path(p_))) for r, p_ in kr]))
    if len(lookups) < 2:
        raise CannotDecide('per-key table lookups: %d (floor 2)' % len(lookups))

    # (1) admission
    trackers = [(g, i, j, s) for g in reach for i, j, s in g.aggregates('channels_per_key::Tracker')]
    R.ob('C13.admit', ('MaxChannelsPerKey', 'tracker creation sites'), 1 <= len(trackers) <= 3, 'trackers are created only by the admission logic', [g.loc(s) for g, _, _, s in trackers])
    adm = None
    for g in reach:
        if any(callee_is(t, 'HashMap::entry') for _, t in g.calls()) and any(True for _ in g.aggregates('std::result::Result', 'Ok')):
            adm = g
    if adm is None:
        raise CannotDecide('admission function (entry lookup) not found')
    ent = [(bb, t) for bb, t in adm.calls() if callee_is(t, 'HashMap::entry')]
    eterm = ('call', adm.id, ent[0][0])
    epred = lambda x: result_of(P, x, eterm)
    for i, j, s in adm.aggregates('std::result::Result', 'Ok'):
        vac = bool(guarded_by_variant(F, P, adm, i, epred, ['Vacant']))
        occ = bool(guarded_by_variant(F, P, adm, i, epred, ['Occupied']))
        if vac:
            R.ob('C13.admit', ('admission', 'fresh key admitted'), True, 'the first channel of a key is admitted on the Vacant edge', [adm.loc(s)])
            continue
        facts = cmp_facts(F, P, adm, i)
        ok = False
        det = []
        for op, a, b, sw in facts:
            for (o2, x, y) in ((op, a, b), (SWAP[op], b, a)):
                if o2 != 'Lt':
                    continue
                xr, yr = P.root(x), P.root(y, through_params=True)
                is_cnt = bool(xr) and all(P.is_call(r, 'Weak::strong_count', 'Arc::strong_count') for r, _ in xr)
                if is_cnt:
                    # counted on this key's own entry
                    for r, _ in xr:
                        ar = P.root(P.args_of(r)[0])
                        if not (ar and all(P.unbound(z) == eterm for z, _ in ar)):
                            is_cnt = False
                is_lim = bool(yr) and all(r[0] == 'param' and P.fpath(p)[-1:] == (lim_field,) for r, p in yr)
                det.append('%s < %s' % ([P.describe(r) for r, _ in xr], [P.describe(r) + str(P.fpath(p)) for r, p in yr]))
                if is_cnt and is_lim:
                    ok = True
        R.ob('C13.admit', ('admission', 'existing key admitted only below the limit'), occ and ok,
             'a further channel of a key is admitted only under strong_count(entry) < channels_per_key', [adm.loc(s)], '; '.join(det))
    # shed only at the limit: Err results only under count >= limit
    for i, j, s in adm.aggregates('std::result::Result', 'Err'):
        facts = cmp_facts(F, P, adm, i)
        ok = False
        for op, a, b, sw in facts:
            for (o2, x, y) in ((op, a, b), (SWAP[op], b, a)):
                if o2 == 'Ge':
                    xr, yr = P.root(x), P.root(y, through_params=True)
                    if xr and all(P.is_call(r, 'Weak::strong_count', 'Arc::strong_count') for r, _ in xr) and yr and all(r[0] == 'param' and P.fpath(p)[-1:] == (lim_field,) for r, p in yr):
                        ok = True
        R.ob('C13.admit', ('admission', 'shed only at the limit'), ok, 'a channel is refused only under strong_count(entry) >= channels_per_key', [adm.loc(s)])
    # every tracker handed out is either the key's existing one (upgrade of the entry) or a fresh one whose downgrade is stored in the key's entry on
    # every path before it is returned — a fresh tracker the table does not know makes the key look unused to the next arrival
    def recorded(g, bb):
        me = ('call', g.id, bb)
        stores = []
        for b2, t2 in g.calls():
            if callee_is(t2, 'Arc::downgrade'):
                ar = P.root(P.operand(g, t2['args'][0], at=b2), inline=False, stop_tags=('box',))
                if not (ar and all(P.unbound(x) == me for x, _ in ar)):
                    continue
                dg = ('call', g.id, b2)
                for b3, t3 in g.calls():
                    if callee_is(t3, 'hash_map::VacantEntry::insert', 'hash_map::OccupiedEntry::insert', 'HashMap::insert', 'hash_map::Entry::or_insert', 'hash_map::VacantEntry::insert_entry'):
                        if any(P.unbound(x) == dg for a in t3['args'][1:] for x, _ in P.root(P.operand(g, a, at=b3))):
                            stores.append(b3)
                for i_, j_, s_ in g.stmts():
                    if any(e[0] == 'd' or e == 'deref' or (isinstance(e, list) and e and e[0] == 'deref') for e in s_['pl']['p']) and s_['rv']['k'] == 'use':
                        if any(P.unbound(x) == dg for x, _ in P.root(P.operand(g, s_['rv']['op'], at=i_))):
                            base = P.root(P.local(g, s_['pl']['l'], at=i_))
                            if base and all(P.is_call(x, 'hash_map::OccupiedEntry::get_mut', 'hash_map::OccupiedEntry::into_mut', 'HashMap::get_mut', 'hash_map::Entry::or_insert', 'HashMap::entry')
                                            for x, _ in base):
                                stores.append(i_)
        return bool(stores) and cfg.all_paths_pass(g, bb, cfg.exits(g), set(stores))

    for i, j, s in adm.aggregates('std::result::Result', 'Ok'):
        alts = P.root(P._field(('agg', adm.id, i, j), 0, 0), inline=False, stop_tags=('box',))
        ok = bool(alts)
        det = []
        for r, p_ in alts:
            ru = P.unbound(r)
            if P.is_call(r, 'Weak::upgrade'):
                ar = P.root(P.args_of(r)[0])
                if not (ar and all(P.unbound(z) == eterm for z, _ in ar)):
                    ok = False
                    det.append('upgrade of something other than the key\'s entry')
                continue
            if ru[0] == 'call' and recorded(F.fns[ru[1]], ru[2]):
                continue
            ok = False
            det.append('fresh tracker from %s is not stored in the entry on every path' % P.describe(r))
        arm = 'fresh key' if guarded_by_variant(F, P, adm, i, epred, ['Vacant']) else ('existing key' if guarded_by_variant(F, P, adm, i, epred, ['Occupied']) else 'unguarded')
        R.ob('C13.admit', ('admission', 'tracker handed out is the one the table knows', arm), ok,
             'the tracker given to an admitted channel is the upgrade of the key\'s entry, or a fresh tracker whose downgrade is stored in that entry before it is returned', [adm.loc(s)], '; '.join(det))

    # refusals produced by `option.ok_or(key)` / `ok_or_else(..)`: the option must be None only at the limit.  When it comes from a local helper, every way
    # that helper returns None is inspected: a None built under count >= limit is a refusal at the limit; a `?` on `upgrade()` (None because no channel of
    # the key is alive) is a refusal with nothing alive
    for g in F.with_descendants(adm):
        for bb, t in g.calls():
            if not callee_is(t, 'Option::ok_or', 'Option::ok_or_else'):
                continue
            rec = P.root(P.operand(g, t['args'][0], at=bb), inline=False)
            okk, det = bool(rec), []
            for r, p_ in rec:
                ru = P.unbound(r)
                h = F.callee_fn(P.call_term(ru)) if ru[0] == 'call' else None
                if h is None:
                    raise CannotDecide('refusal built from an Option whose origin is not a local function (%s)' % P.describe(r))
                # None returns of h
                for i_, j_, s_ in h.stmts():
                    rv_ = s_['rv']
                    if rv_['k'] == 'agg' and rv_.get('variant') == 'None' and 'Option' in (rv_.get('adt') or '') and s_['pl']['l'] == 0:
                        facts = cmp_facts(F, P, h, i_)
                        at_limit = any(o2 == 'Ge' and any(P.is_call(x, 'Weak::strong_count', 'Arc::strong_count') or (P.unbound(x)[0] == 'bin') for x, _ in P.root(a_))
                                       for op_, a0, b0, _ in facts for (o2, a_, b_) in ((op_, a0, b0), (SWAP[op_], b0, a0)))
                        if not at_limit:
                            okk = False
                            det.append('None returned without the limit fact at %s' % h.loc(s_))
                for b2, t2 in h.calls():
                    if callee_is(t2, 'FromResidual::from_residual') and 'Option' in (t2.get('self_ty') or ''):
                        okk = False
                        det.append('`?` on an Option in %s returns None for a reason other than the limit (%s)' % (h.npath.split('::')[-1], h.loc(t2)))
            R.ob('C13.admit', ('admission', 'shed only at the limit', 'ok_or'), okk,
                 'a channel is refused only under strong_count(entry) >= channels_per_key', [g.loc(t)], '; '.join(det))

    # a channel is shed only by the admission decision above: no other code on the accept path manufactures a refusal (e.g. from a remembered earlier refusal)
    adm_ids = {b_.id for b_ in F.with_descendants(adm)}
    def _from_admission(g, i_, j_):
        # an Err that merely passes on the admission function's own refusal (explicit match instead of `?`)
        rs_ = P.root(P._field(('agg', g.id, i_, j_), 0, 0), inline=False)
        return bool(rs_) and all(P.unbound(x)[0] == 'call' and F.callee_fn(P.call_term(P.unbound(x))) is adm and ('v', 'Err') in p_ for x, p_ in rs_)
    other_err = [(g, s_) for g in reach if g.id not in adm_ids for i_, j_, s_ in g.aggregates('std::result::Result', 'Err') if not s_.get('expn') and not _from_admission(g, i_, j_)]
    R.ob('C13.admit', ('accept path', 'refusals come only from the admission decision'), not other_err,
         'the only place that refuses a channel is the admission function, under strong_count(entry) >= channels_per_key evaluated for this arrival', [g.loc(s_) for g, s_ in other_err] or [adm.loc(adm.d)])
    # ... and the admission function is consulted for every arrival: the function that builds the TrackedChannel calls it unconditionally
    builders = [g for g in reach if any(True for _ in g.aggregates('TrackedChannel'))]
    for g in builders:
        def _always_admits(h, depth=2):
            if h is adm:
                return True
            if h is None or depth == 0:
                return False
            bs_ = [bb_ for bb_, t_ in h.calls() if _always_admits(F.callee_fn(t_), depth - 1)]
            return len(bs_) == 1 and cfg.all_paths_pass(h, 0, cfg.exits(h), set(bs_))
        calls_adm = [bb for bb, t in g.calls() if _always_admits(F.callee_fn(t))]
        ok_b = len(calls_adm) == 1 and cfg.all_paths_pass(g, 0, cfg.exits(g), set(calls_adm))
        R.ob('C13.admit', ('accept path', 'every arrival is put to the admission decision'), ok_b,
             'the function that wraps an accepted transport calls the admission function on every path (no shortcut decides without looking at the key\'s live count)', [g.loc(g.d)])
    if not builders:
        raise CannotDecide('no function builds a TrackedChannel')

    # the map stores the downgrade of the tracker it hands out
    for bb, t in adm.calls():
        if callee_is(t, 'hash_map::VacantEntry::insert'):
            vr = P.root(P.operand(adm, t['args'][1], at=bb))
            ok = bool(vr) and all(P.is_call(r, 'Arc::downgrade') for r, _ in vr)
            R.ob('C13.admit', ('admission', 'table remembers the tracker weakly'), ok, 'the entry stored for a fresh key is the downgrade of the tracker handed out', [adm.loc(t)])

    # (3) dead-check before forgetting
    removes = [(g, bb, t) for g in reach for bb, t in g.calls() if callee_is(t, 'HashMap::remove', 'HashMap::remove_entry', 'hash_map::OccupiedEntry::remove', 'hash_map::OccupiedEntry::remove_entry',
                                                                              'HashMap::clear', 'HashMap::retain', 'HashMap::drain')]
    R.ob('C13.forget', ('MaxChannelsPerKey', 'forgetting sites'), len(removes) >= 1, 'closed keys are eventually forgotten', [g.loc(t) for g, _, t in removes] or [pn.loc(pn.d)])
    for g, bb, t in removes:
        if callee_is(t, 'HashMap::clear', 'HashMap::retain', 'HashMap::drain'):
            R.ob('C13.forget', ('forget', strip_generics(t['callee']).split('::')[-1]), False, 'bulk removal of key entries cannot be dead-checked per key', [g.loc(t)])
            continue
        facts = cmp_facts(F, P, g, bb)
        ok = False
        det = []
        recv = P.root(P.operand(g, t['args'][0], at=bb))
        for op, a, b, sw in facts:
            for (o2, x, y) in ((op, a, b), (SWAP[op], b, a)):
                from engine.prov import const_int
                xr = P.root(x)
                if o2 == 'Eq' and const_int(y) == 0 and xr and all(P.is_call(r, 'Weak::strong_count') for r, _ in xr):
                    # counted on the entry being removed (same lookup)
                    same = True
                    recv_roots = {P.unbound(q) for q, _ in recv}
                    for r, _ in xr:
                        ar = {P.unbound(z) for z, _ in P.root(P.args_of(r)[0])}
                        if not ar or not ar <= recv_roots or not all(z[0] == 'call' and callee_is(P.call_term(z), 'HashMap::entry', 'HashMap::get', 'HashMap::get_mut') for z in ar):
                            same = False
                    det.append('strong_count == 0 on %s' % [P.describe(r) for r, _ in xr])
                    if same:
                        ok = True
        # alternative idiom: upgrade().is_none()
        if not ok:
            pred = lambda x: any(P.is_call(r, 'Option::is_none') and all(P.is_call(q, 'Weak::upgrade') for q, _ in P.root(P.args_of(r)[0])) for r, _ in P.root(x))
            ok = bool(guarded_by_bool(F, P, g, bb, pred, True))
        R.ob('C13.forget', ('close notification', 'entry forgotten only when dead'), ok,
             'a key\'s entry is removed only under a check that none of its channels is alive (a stale notification must not erase a live entry)', [g.loc(t)], '; '.join(det))

    # (3b)/(4) by exploration of the stream's poll (helpers, carrier enums and match shapes do not matter):
    #  - an admitted channel is not dropped: once the admission function returned Ok in this activation, the listener is not polled again and the poll does
    #    not return anything but that channel;
    #  - Pending is returned only when the last poll of the listener and the last poll of the close notifications both returned Pending.
    from .shape_common import run_jobs
    pn_ = F.trait_method('Stream', 'MaxChannelsPerKey', 'poll_next')
    res_ = run_jobs(F, [{'key': 'perkey', 'entry': pn_.id, 'aut': ('custom', PerKeyAut), 'boundary': _boundary_for(adm.id), 'depth': 5}])['perkey']
    R.count('states_explored', res_['stats'].get('states', 0))
    v_ = {k[0]: sorted(sites) for k, sites in res_['viol'].items()}
    exits_ = res_['exits']
    n_yield = sum(1 for (ret, e, lab) in exits_ if isinstance(ret, tuple) and ret[0] == 'Ready' and isinstance(ret[1], tuple) and ret[1][0] == 'Some')
    lost = sorted({repr(ret)[:30] for (ret, e, lab) in exits_ if e[0][2] and not (isinstance(ret, tuple) and ret[0] == 'Ready' and isinstance(ret[1], tuple) and ret[1][0] == 'Some')})
    R.ob('C13.yield', ('<MaxChannelsPerKey as Stream>::poll_next', 'an admitted channel is yielded'), n_yield >= 1 and not lost and 'LISTENER_POLLED_WITH_ADMITTED_CHANNEL' not in v_,
         'once a channel was admitted (and counted) in an activation, that activation returns it: the listener is not polled again first and no other result is returned',
         v_.get('LISTENER_POLLED_WITH_ADMITTED_CHANNEL', []) or [pn_.loc(pn_.d)], 'returns that drop an admitted channel: %s' % lost)
    pend = [(e[0][0], e[0][1]) for (ret, e, lab) in exits_ if ret == 'Pending']
    badp = sorted({x for x in pend if x != ('Pending', 'Pending')})
    R.ob('C13.wake', ('<MaxChannelsPerKey as Stream>::poll_next', 'Pending only if both sources are Pending'), bool(pend) and not badp,
         'the stream returns Pending only when the last poll of the listener and the last poll of the close notifications both returned Pending (both wakers registered)',
         [pn_.loc(pn_.d)], 'offending (listener last, notifications last): %s' % badp)
