"""C06 Server enforces request deadlines, never early — arming / expiry / who-may-abort."""
from engine.facts import CannotDecide, callee_is, path_matches
from .common import MAP_REMOVALS, Table, reachable_local_fns, norm_path
from .deadlines import arming_rules, expiry_rules

EXTRA_CONFIGS = ('default', 'tokio1', 'serde1', 'serde-transport')   # feature configurations re-analysed in the thorough tier
META = {
    'level': 'other',
    'technique': 'static provenance of the timer duration, who-may-call(abort) and expiry-edge rules over MIR',
    'text': 'Decides the structure that makes server deadlines right: on arrival the timer is armed with the request\'s own decoded deadline minus a fresh now, keyed by its id; expiry '
            'aborts and forgets exactly the entry whose timer fired, on the Some edge only; AbortHandle::abort is called only by the aborting removal, the expiry and the table\'s Drop, so no '
            'other path can abort a handler early, and no removal leaves its timer armed (a left-over timer would fire on a later request reusing the id); other requests are untouched because every operation is keyed by the fired id. The source-coverage clause (expiry processing while the '
            'response sink is not ready, with a request limiter) is checked by the shape walker and reports known finding D5.',
    'note': 'Trusted: DelayQueue never fires early; futures AbortHandle/Abortable semantics. Not decided: timing. Known finding D5 (MaxRequests at its limit with a non-ready sink delays expiry).',
}


from .coverage import coverage


def order_rule(ctx, tag):
    F, P, R = ctx.F, ctx.P, ctx.run
    # expiry is processed before anything is written in an activation of the request stream
    from .shape_common import run_jobs, server_chains, chain_name
    rp = F.trait_method('Stream', 'server::Requests', 'poll_next')
    chains = [c for c in server_chains(F) if len(c) <= (2 if ctx.tier == 'quick' else 3)]
    res = run_jobs(F, [{'key': chain_name(ch), 'entry': rp.id, 'aut': ('custom', ExpiryFirstAut), 'chain': ch} for ch in chains])
    for ch in chains:
        r = res[chain_name(ch)]
        R.count('states_explored', r['stats'].get('states', 0))
        bad = [k for k in r['viol'] if k[0] == 'WRITE_BEFORE_EXPIRY_PROCESSED']
        R.ob(tag, ('Requests<%s>::poll_next' % chain_name(ch), 'expired requests are forgotten before responses are written'), not bad,
             'in every activation the deadline timers are polled before any response is handed to the transport, so a response buffered for a request whose deadline has passed is dropped, not transmitted',
             sorted({s_ for k in bad for s_ in r['viol'][k]}))



def run(ctx):
    F, P, R = ctx.F, ctx.P, ctx.run
    R.explanation = META['text']
    R.rule_text = 'one obligation per (table method / site, clause)'
    R.assumptions = ['DelayQueue never fires early', 'AbortHandle::abort stops the paired Abortable at its next poll']
    R.info['configs'] = ['full']
    table, ins, arms = arming_rules(ctx, 'C06', 'server')
    exp = expiry_rules(ctx, 'C06', 'server', table)
    # the deadline handed to the table is the request's own decoded deadline
    dl_param = [k for k in range(1, ins.argc + 1) if ins.local_ty(k).endswith('Instant')]
    if len(dl_param) != 1:
        raise CannotDecide('server table insert: deadline parameter')
    sites = [(g, bb, t) for g in F.fns.values() for bb, t in g.calls() if F.callee_fn(t) is ins]
    R.ob('C06.carry', ('server', 'registration sites'), len(sites) == 1, 'requests are registered at one site', [g.loc(t) for g, _, t in sites])
    for g, bb, t in sites:
        rs = P.root(P.operand(g, t['args'][dl_param[0] - 1], at=bb))
        ids = P.root(P.operand(g, t['args'][1], at=bb))
        ok = bool(rs) and all(r[0] == 'param' and 'Request<' in F.fns[r[1]].local_ty(r[2]) and P.fpath(p)[-2:] == ('context', 'deadline') for r, p in rs) \
            and {r for r, _ in rs} == {r for r, _ in ids}
        R.ob('C06.carry', ('BaseChannel request registration', 'arms the request\'s own deadline'), ok,
             'the deadline armed is context.deadline of the very request being registered under its id', [g.loc(t)])
    # expiry aborts the expired entry's handle
    abort_field = table.data_field('AbortHandle')
    for g in table.bodies(exp):
        for bb, t in g.calls():
            if callee_is(t, 'AbortHandle::abort'):
                rs = P.root(P.operand(g, t['args'][0], at=bb))
                ok = bool(rs) and all(P.is_call(r, *MAP_REMOVALS) and abort_field in P.fpath(p) for r, p in rs)
                R.ob('C06.expiry', ('server table expiry', 'aborts the expired request\'s handler'), ok,
                     'the handle aborted on expiry belongs to the entry removed for the fired timer', [g.loc(t)])
    n_abort = sum(1 for g in table.bodies(exp) for _, t in g.calls() if callee_is(t, 'AbortHandle::abort'))
    R.ob('C06.expiry', ('server table expiry', 'abort present'), n_abort == 1, 'expiry aborts the handler', [exp.loc(exp.d)])
    # who may call abort
    allowed = {m.id for m in table.methods}
    aborts = list(F.all_calls('AbortHandle::abort'))
    bad = [(g, t) for g, bb, t in aborts if F.enclosing_item(g) is None or F.enclosing_item(g).id not in allowed]
    # an abort site inside a private helper of the table counts for every entry point (public method / Drop) whose bodies include it
    entry_points = [m for m in table.methods if not table.is_helper(m) or (m.impl_of and (m.impl_of.get('trait') or '').endswith('Drop'))]
    owners = {}
    for g, bb, t in aborts:
        owners[(g.id, bb)] = [m for m in entry_points if any(b.id == g.id for b in table.bodies(m))]
    n_roles = sum(len(v) for v in owners.values())
    R.ob('C06.abort', ('AbortHandle::abort', 'callers'), not bad and n_roles >= 3,
         'handlers are aborted only by the table: aborting removal, expiry, and Drop', [g.loc(t) for g, t in bad] or [g.loc(t) for g, _, t in aborts])
    # each abort outside Drop acts on the handle of an entry just removed, keyed by the entry point's own id parameter
    # (cancel removal) or by the fired timer (expiry)
    for g, bb, t in aborts:
        for m in owners[(g.id, bb)]:
            if m.impl_of and (m.impl_of.get('trait') or '').endswith('Drop'):
                continue
            ctxs = {b.id for b in table.bodies(m)}
            rs = P.root(P.operand(g, t['args'][0], at=bb))
            ok = bool(rs)
            for r, p in rs:
                if not (P.is_call(r, *MAP_REMOVALS) and abort_field in P.fpath(p)):
                    ok = False
                    continue
                kr = P.root(P.args_of(r)[1], through_params=table.is_helper, callers=ctxs)
                if not (kr and all((x[0] == 'param' and x[1] == m.id) or P.is_call(x, 'DelayQueue::poll_expired') for x, _ in kr)):
                    ok = False
            R.ob('C06.abort', ('AbortHandle::abort', m.npath, 'acts on the removed entry'), ok,
                 'a handler is aborted only together with forgetting its own entry (removed by the given id or by the fired timer)', [g.loc(t)])
    roles = {}
    for g, bb, t in aborts:
        for m in owners[(g.id, bb)]:
            if m.impl_of and (m.impl_of.get('trait') or '').endswith('Drop'):
                roles['drop'] = m
            elif m.id == exp.id:
                roles['expiry'] = m
            else:
                roles.setdefault('removal', m)
    R.ob('C06.abort', ('AbortHandle::abort', 'roles'), set(roles) == {'drop', 'expiry', 'removal'}, 'the three abort sites are the cancel removal, the expiry and Drop', [m.loc(m.d) for m in roles.values()])
    R.count('functions_analysed', len(table.methods) + 2)
    # no removal leaves its timer armed: a left-over timer would fire later on whatever request then uses the id and abort it before its own deadline
    from .C11 import removal_pairing
    removal_pairing(ctx, 'C06.timers', 'server')
    # source coverage while blocked (E-SHAPE): known finding D5 for limiter chains
    coverage(ctx, 'C06.cover', ('T',))
    order_rule(ctx, 'C06.order')

class ExpiryFirstAut:
    name = 'expiry_first'

    def init(self):
        return False

    def step(self, aut, ev, shape, site, X):
        if ev[0] == 'T':
            return True
        if ev == ('W', 'start_send') and not aut:
            X.violation(('WRITE_BEFORE_EXPIRY_PROCESSED',), site)
        return aut
