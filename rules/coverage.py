"""Source coverage while blocked (C04.7 / C06): at every Pending exit of the request stream, over every decorator chain,
the expiry source and the internal cancellation queue are registered — with no exemption for a sink that is not ready."""
from engine.facts import CannotDecide
from .shape_common import run_jobs, server_chains, chain_name

SRC_NAME = {'T': 'deadline expiry', 'K': 'cancellation queue', 'R': 'transport read'}


def coverage(ctx, tag, sources, blocked_too=True):
    F, R = ctx.F, ctx.run
    rp = F.trait_method('Stream', 'server::Requests', 'poll_next')
    chains = server_chains(F)
    if ctx.tier == 'quick':
        chains = [c for c in chains if len(c) <= 2]
    jobs = []
    for ch in chains:
        for src in sources:
            jobs.append({'key': (chain_name(ch), src), 'entry': rp.id, 'aut': ('src', src), 'chain': ch})
    res = run_jobs(F, jobs)
    R.info.setdefault('chains', [chain_name(c) for c in chains])
    for ch in chains:
        for src in sources:
            r = res[(chain_name(ch), src)]
            R.count('states_explored', r['stats'].get('states', 0))
            pend = {e[0] for (ret, e, lab) in r['exits'] if ret == 'Pending'}
            if not pend:
                raise CannotDecide('no Pending exit for chain %s' % chain_name(ch))
            blocked = sorted({a for a in pend if a[0] not in ('Pending', 'Closed') and a[1]}, key=repr)
            other = sorted({a for a in pend if a[0] not in ('Pending', 'Closed') and not a[1]}, key=repr)
            entry = 'Requests<%s>::poll_next' % chain_name(ch)
            if blocked_too:
              R.ob(tag, (entry, 'source ' + SRC_NAME[src], 'not registered while the response sink is not ready'), not blocked,
                   'at every Pending exit taken while a sink poll is Pending, %s is registered (polled last with Pending) or exhausted' % SRC_NAME[src], [rp.loc(rp.d)],
                   'exit states (last outcome, w_wait, drain): %s' % blocked)
            R.ob(tag, (entry, 'source ' + SRC_NAME[src], 'not registered on an idle return'), not other,
                 'at every other Pending exit, %s is registered or exhausted' % SRC_NAME[src], [rp.loc(rp.d)], 'exit states: %s' % other)
