"""C17 Generated service glue connects each method to itself — generator lint (syn) + translation validation of a corpus (MIR)."""
import json
import os
import subprocess

from engine import extract, tab
from engine.facts import Facts, CannotDecide, callee_is, path_matches, strip_generics
from engine.prov import Prov
from engine.asyncs import await_of_call
from .common import guarded_by_variant, norm_path, result_of

LEVEL = 'translation_validation'
EXTRA_CONFIGS = ()   # feature configurations re-analysed in the thorough tier
META = {
    'level': 'translation_validation',
    'technique': 'translation validation: every generated client method / serve arm / name arm of a corpus of service definitions is checked (from the MIR of the expansion) against the '
                 'definition it came from; plus a syn-based lint of the generator\'s quote! templates (lock-step repetition over order-preserving images of one method list)',
    'text': 'For every service in a generated corpus (method counts 0-6, 0-4 arguments of equal and differing types, default/explicit return types, raw identifiers, underscore and mixed-case '
            'names, cfg\'d methods, attributes, derive options, Option-typed arguments and results) the macro expansion compiled by rustc is validated: client method m builds request variant V(m) whose fields are its own '
            'parameters in declaration order, passes its ctx to the stub, and unwraps response variant V(m); the serve arm for V(m) calls trait method m with (self.service, ctx, fields in '
            'order) and wraps the awaited result in response variant V(m); name() maps V(m) to "<Service>.<m>"; the serializers derived for the generated enums announce a constant field count per variant equal to the number of arguments and never skip a field (C17.wire: the wire form does not depend on argument values, e.g. None). Independently, the generator lint shows that in every quote! template each '
            'repetition interpolates only scalars and sequences that are order-preserving images of the one method list, so index i of every sequence comes from method i for ANY accepted '
            'definition; and that every fixed associated name the templates add next to user methods (new, serve) is rejected by the parser.',
    'note': 'Trusted: rustc (the expansion is validated after macro expansion and type checking), quote!\'s lock-step repetition semantics, syn parsing. Services outside the corpus are covered '
            'by the generator lint only. For raw identifiers both "r#m" and "m" are accepted in the reported name (the property does not say) and the rendering observed is recorded.',
}

ALLOWED = {'iter', 'map', 'zip', 'collect', 'as_ref', 'cloned', 'copied', 'into_iter', 'to_vec', 'as_slice', 'clone', 'as_deref', 'unraw', 'to_string', 'peekable'}
MUTATORS = {'reverse', 'sort', 'sort_by', 'sort_by_key', 'sort_unstable', 'sort_unstable_by', 'swap', 'remove', 'insert', 'push', 'retain', 'dedup', 'dedup_by', 'dedup_by_key', 'rotate_left',
            'rotate_right', 'truncate', 'pop', 'drain', 'swap_remove', 'extend', 'clear', 'append', 'split_off'}


def snake_to_camel(s):
    out, up = '', True
    for c in s:
        if c == '_':
            up = True
        elif up:
            out += c.upper()
            up = False
        else:
            out += c.lower()
    return out


# ------------------------------------------------------------------------------------------------- corpus
def corpus(tier):
    S = []

    def svc(name, methods, attr='', trait_attrs=''):
        S.append({'name': name, 'methods': methods, 'attr': attr, 'trait_attrs': trait_attrs})

    def m(name, args=(), ret=None, cfg=None, attrs=''):
        return {'name': name, 'args': list(args), 'ret': ret, 'cfg': cfg, 'attrs': attrs}
    svc('Calc', [m('add', [('a', 'i32'), ('b', 'i32')], 'i32'), m('sub', [('a', 'i64'), ('b', 'i64')], 'i64'), m('hello', [], 'String'), m('ping')])
    svc('Order', [m('concat', [('first', 'String'), ('second', 'String'), ('third', 'String')], 'String'), m('mix', [('n', 'u8'), ('s', 'String'), ('m', 'u8'), ('t', 'String')], '(u8, String)'),
                  m('swap_me', [('b', 'u64'), ('a', 'u64')], 'u64')])
    svc('Raw', [m('r#trait', [('r#yield', 'i32')], 'i32'), m('r#await'), m('plain', [('r#type', 'String'), ('r#fn', 'String')], 'String')])
    svc('Names', [m('_leading', [('x', 'u8')], 'u8'), m('trailing_', [('x', 'u16')], 'u16'), m('double__under', [('x', 'u32')], 'u32'), m('miXed_Case', [('x', 'u64')], 'u64'),
                  m('a', [], 'u8'), m('a1', [], 'u8')])
    svc('Cfgs', [m('kept_first', [('x', 'i8')], 'i8'), m('gone', [('x', 'i16')], 'i16', cfg='any()'), m('kept_mid', [('x', 'i32')], 'i32', cfg='all()'), m('gone2', [], None, cfg='any()'),
                 m('kept_last', [('x', 'i64')], 'i64')])
    # several cfg attributes on one method: the method exists only if all of them hold
    svc('MultiCfg', [m('both_on', [('x', 'i8')], 'i8', cfg=['all()', 'all()']), m('second_off', [('x', 'i16')], 'i16', cfg=['all()', 'any()']),
                     m('first_off', [('x', 'i32')], 'i32', cfg=['any()', 'all()']), m('plain', [('x', 'i64')], 'i64'), m('three', [('y', 'u8')], 'u8', cfg=['all()', 'all()', 'any()'])])
    # a service without methods is rejected by rustc (match on an empty enum behind a reference): not in the corpus
    svc('NoSerde', [m('one', [('a', 'u8')], 'u8'), m('two', [('a', 'u8'), ('b', 'u8')], 'u8')], attr='(derive_serde = false)')
    svc('Derives', [m('one', [('a', 'u8')], 'u8'), m('other', [('a', 'String')], 'String')], attr='(derive = [Clone, PartialEq])')
    svc('Attrs', [m('documented', [('a', 'u8')], 'u8', attrs='/// doc comment\n        #[allow(unused)]'), m('second', [('a', 'bool'), ('b', 'bool')], 'bool')], trait_attrs='/// A documented service.')
    # argument names that collide with identifiers the generated glue uses internally
    svc('Shadow', [m('forward', [('context', 'tarpc::context::Context'), ('n', 'u8')], 'u64'), m('names', [('request', 'u8'), ('req', 'u16'), ('resp', 'u32'), ('msg', 'u64')], 'u64'),
                   m('more', [('stub', 'u8'), ('service', 'u16'), ('result', 'u32'), ('new_client', 'u64')], 'u64')])
    # optional arguments and results: the wire form of a request must not depend on the argument values (positional codecs)
    svc('Opt', [m('find', [('query', 'Option<String>'), ('page', 'u32')], 'Option<String>'), m('tags', [('a', 'Option<u8>'), ('b', 'std::option::Option<u16>'), ('c', 'Vec<u8>')], 'Vec<u8>'),
                m('last', [('only', 'Option<bool>')])])
    svc('Solo', [m('only', [('a', 'u8'), ('b', 'String')], 'String')])      # one method: one-variant enums are matched without a discriminant test
    svc('Six', [m('m%d' % i, [('p%d' % j, 'u32') for j in range(i % 5)], 'u32') for i in range(6)])
    if tier == 'thorough':
        tys = ['u8', 'String', 'bool', 'Vec<u8>']
        k = 0
        for nm in range(1, 7):
            for na in range(0, 5):
                for same in (True, False):
                    if na < 2 and not same:
                        continue
                    k += 1
                    ms = []
                    for i in range(nm):
                        args = [('x%d' % j, tys[0] if same else tys[(i + j) % len(tys)]) for j in range(na)]
                        ms.append(m('f%d_%d' % (k, i), args, tys[(i + k) % len(tys)] if (i + k) % 3 else None))
                    svc('Gen%d' % k, ms)
    return S


def cfgs_of(me):
    c = me['cfg']
    return [] if not c else ([c] if isinstance(c, str) else list(c))


def render(corp):
    out = ['#![allow(non_snake_case, non_camel_case_types, dead_code, unused, clippy::all)]\n']
    for i, s in enumerate(corp):
        out.append('pub mod s%d {\n' % i)
        if s['trait_attrs']:
            out.append('    %s\n' % s['trait_attrs'])
        out.append('    #[tarpc::service%s]\n    pub trait %s {\n' % (s['attr'], s['name']))
        for me in s['methods']:
            if me['attrs']:
                out.append('        %s\n' % me['attrs'])
            for c_ in cfgs_of(me):
                out.append('        #[cfg(%s)]\n' % c_)
            out.append('        async fn %s(%s)%s;\n' % (me['name'], ', '.join('%s: %s' % a for a in me['args']), (' -> ' + me['ret']) if me['ret'] else ''))
        out.append('    }\n}\n')
    return ''.join(out)


def unraw(n):
    return n[2:] if n.startswith('r#') else n


# ------------------------------------------------------------------------------------------------- validation of one service
def validate(R, F, P, idx, s):
    mod = 's%d' % idx
    svc = s['name']
    live = [me for me in s['methods'] if 'any()' not in cfgs_of(me)]
    want_variants = [snake_to_camel(unraw(me['name'])) for me in live]
    key = lambda what, me=None: ('%s::%s' % (mod, svc),) + ((me['name'],) if me else ()) + (what,)
    req = F.adts.get('%s::%sRequest' % (mod, svc))
    resp = F.adts.get('%s::%sResponse' % (mod, svc))
    if req is None or resp is None:
        R.ob('C17.enum', key('request/response enums exist'), False, 'the expansion defines <Service>Request and <Service>Response', [])
        return 0
    R.ob('C17.enum', key('request variants'), sorted(v['name'] for v in req['variants']) == sorted(want_variants) and len(set(want_variants)) == len(want_variants),
         'the request enum has exactly one variant per method, named by the camel-cased method', [], 'got %s want %s' % ([v['name'] for v in req['variants']], want_variants))
    # (the response enum keeps a variant for cfg'd-out methods: harmless, they are never constructed)
    rnames = [v['name'] for v in resp['variants']]
    all_variants = [snake_to_camel(unraw(me['name'])) for me in s['methods']]
    R.ob('C17.enum', key('response variants'), sorted(rnames) in (sorted(want_variants), sorted(all_variants)), 'the response enum has one variant per method', [], 'got %s' % rnames)
    for me in live:
        V = snake_to_camel(unraw(me['name']))
        rv_ = [v for v in resp['variants'] if v['name'] == V]
        okt = len(rv_) == 1 and len(rv_[0]['fields']) == 1 and _ty_eq(rv_[0]['fields'][0][1], me['ret'] or '()')
        R.ob('C17.enum', key('response payload type', me), okt, 'the response variant of a method carries its return type', [], 'got %s want %s' % ([f[1] for v in rv_ for f in v['fields']], me['ret'] or '()'))
    by_name = {v['name']: v for v in req['variants']}
    for me in live:
        v = by_name.get(snake_to_camel(unraw(me['name'])))
        if v is None:
            continue
        got = [(f[0], f[1]) for f in v['fields']]
        want = [(unraw(a[0]), a[1]) for a in me['args']]
        okf = [g[0] for g in got] == [w[0] for w in want] and all(g[1].split('::')[-1].replace(' ', '') == w[1].split('::')[-1].replace(' ', '') or _ty_eq(g[1], w[1]) for g, w in zip(got, want))
        R.ob('C17.enum', key('request fields', me), okf, 'variant fields are the method\'s arguments, by name and type, in order', [], 'got %s want %s' % (got, want))
    # ---- wire form: the derived serializers of the generated enums always write every field (a field left out for some argument value — skip_serializing_if —
    # mis-aligns every positional codec: the server decodes the next argument's bytes in its place and the method is never invoked)
    serde_on = 'derive_serde = false' not in s['attr'] and 'derive =' not in s['attr']
    for en, adt_ in (('%sRequest' % svc, req), ('%sResponse' % svc, resp)):
        ims = [im for im in F.trait_impls('Serialize') if (im.get('self_head') or '').endswith('%s::%s' % (mod, en))]
        if not serde_on:
            continue
        okw, detw, lens = len(ims) == 1, [], []
        for im in ims:
            for name_, mid in im['methods']:
                f_ = F.fns.get(mid)
                if f_ is None or name_ != 'serialize':
                    continue
                for g in F.with_descendants(f_):
                    for bb, t in g.calls():
                        c = strip_generics(t.get('callee') or '')
                        if c.endswith('::skip_field'):
                            okw = False
                            detw.append('skip_field')
                        if c.endswith(('Serializer::serialize_struct_variant', 'Serializer::serialize_tuple_variant', 'Serializer::serialize_struct')):
                            v_ = P.fold_int(P.operand(g, t['args'][-1], at=bb))
                            lens.append(v_)
                            if v_ is None:
                                okw = False
                                detw.append('field count computed at run time')
        if en.endswith('Request'):
            want_lens = sorted(len(me['args']) for me in live if me['args'])
            got_lens = sorted(x for x in lens if x)
            if None not in lens and got_lens != want_lens:
                okw = False
                detw.append('field counts %s, want %s' % (got_lens, want_lens))
        # reader side: the variant tags the derived deserializer accepts are exactly the variant names (an alias or rename puts declared method names and
        # camel-cased variant names into one tag space, where `GetItem` (variant Getitem) and `get_item` (variant GetItem) collide: a call to one method is
        # decoded as the other)
        tags = []
        for g in F.fns.values():
            io = g.impl_of or {}
            if g.id.endswith('::visit_str') and (io.get('self_head') or '').endswith('for %s::%s>::deserialize::__FieldVisitor' % (mod, en)):
                for bb, t in g.calls():
                    if callee_is(t, 'PartialEq::eq'):
                        for a in t['args']:
                            if a.get('k') == 'const' and a.get('v', '').startswith('"'):
                                tags.append(a['v'].strip('"'))
        want_tags = sorted(v['name'] for v in adt_['variants'])
        if sorted(tags) != want_tags:
            okw = False
            detw.append('accepted variant tags %s, want %s' % (sorted(tags), want_tags))
        R.ob('C17.wire', key('%s always writes every field' % en), okw,
             'the serializer derived for the generated enum announces, per variant, a constant field count equal to the number of arguments and never skips a field; the deserializer accepts exactly the variant names as tags', [], '; '.join(sorted(set(detw))))
    n = 0
    # ---- client methods
    for vi, me in enumerate(live):
        V = want_variants[vi]
        cands = [f for f in F.fns.values() if f.kind == 'AssocFn' and f.npath == '%s::%sClient::%s' % (mod, svc, me['name'])]
        if len(cands) != 1:
            R.ob('C17.client', key('client method exists', me), False, 'the client has a method named like the service method', [], '%d candidates' % len(cands))
            continue
        cm = cands[0]
        n += 1
        aggs = [(i, j, st) for i, j, st in cm.aggregates('%s::%sRequest' % (mod, svc))]
        ok = len(aggs) == 1 and aggs[0][2]['rv']['variant'] == V
        det = ''
        if ok:
            i, j, st = aggs[0]
            rv = st['rv']
            ok = rv['fields'] == [unraw(a[0]) for a in me['args']]
            for k_, a in enumerate(me['args']):
                rs = P.root(P.operand(cm, rv['ops'][k_], at=i)) if k_ < len(rv['ops']) else []
                if not (rs and all(r == ('param', cm.id, 3 + k_) and not norm_path(p) for r, p in rs)):
                    ok = False
                    det += 'field %s <- %s; ' % (a[0], [P.describe(r) for r, _ in rs])
        R.ob('C17.client', key('builds its own request variant from its own arguments', me), ok,
             'client method %s builds %sRequest::%s with field k = its k-th argument' % (me['name'], svc, V), [cm.loc(cm.d)], det)
        calls = [(bb, t) for bb, t in cm.calls() if callee_is(t, 'client::stub::Stub::call')]
        ok = len(calls) == 1
        if ok:
            bb, t = calls[0]
            cr = P.root(P.operand(cm, t['args'][1], at=bb))
            rr = P.root(P.operand(cm, t['args'][2], at=bb))
            ok = bool(cr) and all(r == ('param', cm.id, 2) for r, _ in cr) and bool(rr) and all(r[0] == 'agg' and r[1] == cm.id for r, _ in rr)
        R.ob('C17.client', key('sends it with the caller\'s context', me), ok, 'the request built is passed to the stub together with the ctx argument', [cm.loc(cm.d)])
        # response unwrapping in the async block
        bodies = [b for b in F.descendants(cm) if b.coroutine]
        ok = len(bodies) == 1
        if ok:
            b = bodies[0]
            oks = [(i, j, st) for i, j, st in b.aggregates('std::result::Result', 'Ok')]
            good = 0
            for i, j, st in oks:
                pr = P.root(P.operand(b, st['rv']['ops'][0], at=i))
                if pr and all(('v', V) in p and ('t', 'await') in p for r, p in pr):
                    # guarded by the matching variant of the awaited response
                    pred = lambda x: any(('t', 'await') in p for _, p in P.root(x))
                    if len(resp['variants']) == 1 or guarded_by_variant(F, P, b, i, pred, [V]):     # a one-variant enum is matched without a test
                        good += 1
            ok = good == 1 and len(oks) == 1
        R.ob('C17.client', key('unwraps the same response variant', me), ok, 'the client returns the payload of %sResponse::%s of the awaited reply (and nothing else)' % (svc, V), [cm.loc(cm.d)])
    # ---- serve
    serve = [f for f in F.fns.values() if f.kind == 'AssocFn' and f.impl_of and (f.impl_of.get('trait') or '').endswith('server::Serve') and f.impl_of.get('self_head') == '%s::Serve%s' % (mod, svc)]
    if len(serve) != 1:
        R.ob('C17.serve', key('Serve impl exists'), False, 'the expansion implements Serve for Serve<Service>', [], '%d' % len(serve))
        return n
    sb = [b for b in F.descendants(serve[0]) if b.coroutine]
    if len(sb) != 1:
        raise CannotDecide('serve coroutine of %s' % svc)
    sb = sb[0]
    for vi, me in enumerate(live):
        V = want_variants[vi]
        calls = [(bb, t) for bb, t in sb.calls() if strip_generics(t.get('callee') or '') == '%s::%s::%s' % (mod, svc, me['name'])]
        ok = len(calls) == 1
        det = ''
        if ok:
            bb, t = calls[0]
            n += 1
            is_req = lambda x: any(r[0] == 'param' and 'Request' in sb_param_ty(F, r) for r, _ in P.root(x))
            ok = len(req['variants']) == 1 or bool(guarded_by_variant(F, P, sb, bb, is_req, [V]))
            if not ok:
                det += 'not on the %s arm; ' % V
            a = t['args']
            sr = P.root(P.operand(sb, a[0], at=bb))
            if not (sr and all(r[0] == 'param' and P.fpath(p)[-1:] == ('service',) for r, p in sr)):
                ok = False
                det += 'receiver is not self.service; '
            cr = P.root(P.operand(sb, a[1], at=bb))
            if not (cr and all(r[0] == 'param' and 'context::Context' in sb_param_ty(F, r) for r, _ in cr)):
                ok = False
                det += 'ctx not forwarded; '
            if len(a) != 2 + len(me['args']):
                ok = False
                det += 'arity; '
            for k_, arg in enumerate(me['args']):
                if 2 + k_ >= len(a):
                    break
                rs = P.root(P.operand(sb, a[2 + k_], at=bb))
                if not (rs and all(r[0] == 'param' and ('v', V) in p and P.fpath(p)[-1:] == (unraw(arg[0]),) for r, p in rs)):
                    ok = False
                    det += 'arg %d <- %s; ' % (k_, [P.describe(r) + str(list(norm_path(p))) for r, p in rs])
            # result wrapped in the same response variant
            wraps = [(i, j, st) for i, j, st in sb.aggregates('%s::%sResponse' % (mod, svc))
                     if any(P.unbound(r) == ('call', sb.id, bb) for o in st['rv']['ops'] for r, _ in P.root(P.operand(sb, o, at=i)))]
            if not (len(wraps) == 1 and wraps[0][2]['rv']['variant'] == V):
                ok = False
                det += 'result wrapped in %s; ' % [w[2]['rv']['variant'] for w in wraps]
        R.ob('C17.serve', key('serve arm calls its own method with the fields in order', me), ok,
             'the %s arm invokes %s::%s(self.service, ctx, fields in declaration order) and answers with %sResponse::%s' % (V, svc, me['name'], svc, V), [sb.loc(sb.d)], det)
    # ---- name()
    nm = [f for f in F.fns.values() if f.kind == 'AssocFn' and f.impl_of and (f.impl_of.get('trait') or '').endswith('RequestName') and f.impl_of.get('self_head') == '%s::%sRequest' % (mod, svc)]
    if len(nm) == 1 and live:
        f = nm[0]
        names = {}
        sws = tab.find_switches(f, min_arms=1)
        strs = []
        if len(live) == 1:
            # single variant: no switch; the body returns one constant
            for i, j, st in f.stmts():
                rv = st['rv']
                if rv['k'] == 'use' and rv['op']['k'] == 'const' and rv['op']['ty'] == '&str':
                    strs.append(rv['op']['v'].strip('"'))
            got = strs[:1]
        else:
            got = []
            if sws:
                t = f.blocks[sws[0]]['term']
                arms = dict((v, x) for v, x in t['targets'])
                for vi in range(len(live)):
                    b = arms.get(vi, t['otherwise'])
                    got.append(_arm_str(f, b))
        order = [v['name'] for v in req['variants']]
        by_variant = {snake_to_camel(unraw(me['name'])): me for me in live}
        in_order = [by_variant[n] for n in order if n in by_variant]
        want_a = ['%s.%s' % (svc, me['name']) for me in in_order]
        want_b = ['%s.%s' % (svc, unraw(me['name'])) for me in in_order]
        R.ob('C17.name', key('request names'), got == want_a or got == want_b, 'name() maps each variant to "<Service>.<method>" of its own method', [f.loc(f.d)], 'got %s' % got)
        if got != want_b and got == want_a:
            R.note('raw identifiers are rendered with their r# prefix in request names: %s' % [g for g, w in zip(got, want_b) if g != w])
    elif live:
        R.ob('C17.name', key('RequestName impl exists'), False, 'the request enum implements RequestName', [])
    return n


def sb_param_ty(F, r):
    """type of the value a parameter root denotes, looking through the coroutine environment"""
    f = F.fns[r[1]]
    return f.local_ty(r[2])


def _ty_eq(a, b):
    norm = lambda t: t.replace('std::string::', '').replace('std::vec::', '').replace('alloc::string::', '').replace('alloc::vec::', '').replace('std::option::', '').replace('core::option::', '').replace(' ', '')
    return norm(a) == norm(b)


def _arm_str(f, bb):
    seen = 0
    while seen < 8:
        b = f.blocks[bb]
        for st in b['stmts']:
            rv = st['rv']
            if rv['k'] == 'use' and rv['op']['k'] == 'const' and rv['op']['ty'] == '&str':
                return rv['op']['v'].strip('"')
        if b['term']['k'] == 'goto':
            bb = b['term']['t']
            seen += 1
            continue
        return None
    return None


# ------------------------------------------------------------------------------------------------- generator lint
def genlint_json(repo):
    d = os.path.join(extract.VERIF, 'tools', 'genlint')
    exe = os.path.join(d, 'target', 'release', 'genlint')
    src = os.path.join(d, 'src', 'main.rs')
    if not os.path.exists(exe) or os.path.getmtime(exe) < os.path.getmtime(src):
        r = subprocess.run(['cargo', 'build', '--release', '--offline'], cwd=d, env=dict(os.environ, CARGO_NET_OFFLINE='true'), stdout=subprocess.PIPE, stderr=subprocess.STDOUT, text=True)
        if r.returncode != 0:
            raise CannotDecide('cannot build genlint:\n' + r.stdout[-2000:])
    r = subprocess.run([exe, os.path.join(repo, 'plugins', 'src', 'lib.rs')], stdout=subprocess.PIPE, stderr=subprocess.PIPE, text=True)
    if r.returncode != 0:
        raise CannotDecide('genlint failed on plugins/src/lib.rs: ' + r.stderr[-1000:])
    return json.loads(r.stdout)


class Lint:
    def __init__(self, d):
        self.d = d
        self.fns = {f['name']: f for f in d['fns']}
        sg = [s for s in d['struct_lits'] if s['path'].replace(' ', '') == 'ServiceGenerator']
        if len(sg) != 1:
            raise CannotDecide('ServiceGenerator literal: %d' % len(sg))
        self.gen_fn = sg[0]['fn']
        self.fields = sg[0]['fields']
        self.lets = {}
        for l in d['lets']:
            self.lets.setdefault(l['fn'], {})[l['pat'].replace('mut ', '').strip()] = l['expr']
        self.mut_calls = [(c['fn'], c['recv'], c['method']) for c in d['calls'] if c['method'] in MUTATORS]

    def classify(self, expr, fn, depth=0, bound=None):
        """-> ('seq', why) | ('scalar', why) | ('bad', why)"""
        bound = bound or {}
        if depth > 8:
            return ('bad', 'too deep')
        kind, base, ch = expr['kind'], expr['base'].replace(' ', ''), expr['chain']
        if kind == 'call':
            h = self.fns.get(base)
            if h is None or not h.get('tail'):
                return ('scalar', 'call ' + base)
            pname = h['params'][0].split(':')[0].strip() if h['params'] else None
            inner = self.classify(expr['args'][0], fn, depth + 1, bound) if expr['args'] else ('scalar', '')
            if inner[0] != 'seq':
                return ('scalar', 'helper over non-sequence')
            res = self.classify(h['tail'], h['name'], depth + 1, {pname: ('seq', 'param')})
            base_cls = res
        elif kind == 'path':
            if base in bound:
                base_cls = bound[base]
            elif base == 'rpcs':
                base_cls = ('seq', 'rpcs')
            elif base in self.lets.get(fn, {}):
                base_cls = self.classify(self.lets[fn][base], fn, depth + 1, bound)
            elif fn != self.gen_fn and base in self.fields:
                base_cls = self.classify(self.fields[base], self.gen_fn, depth + 1)
            else:
                base_cls = ('scalar', base)
        else:
            base_cls = ('scalar', kind)
        if base_cls[0] == 'bad':
            return base_cls
        if base_cls[0] == 'scalar':
            return base_cls
        for c in ch:
            mname = c['m']
            if mname not in ALLOWED:
                return ('bad', 'method .%s() is not order-preserving' % mname)
            if mname == 'zip':
                a = c.get('arg')
                if not a or self.classify(a, fn, depth + 1, bound)[0] != 'seq':
                    return ('bad', 'zip with something that is not an image of the method list')
        return ('seq', 'image of rpcs')

    def var_class(self, name, fn):
        short = fn.split('/')[-1]
        if name in self.lets.get(fn, {}):
            return self.classify(self.lets[fn][name], fn)
        if name in self.fields:
            return self.classify(self.fields[name], self.gen_fn)
        return ('scalar', 'not a generator field')


def walk_reps(tree, depth=0):
    """yields (depth, rep node) for every repetition"""
    for n in tree:
        if n['k'] == 'rep':
            yield depth + 1, n
            yield from walk_reps(n['c'], depth + 1)
        elif n['k'] == 'grp':
            yield from walk_reps(n['c'], depth)


def direct_vars(nodes):
    out = []
    for n in nodes:
        if n['k'] == 'var':
            out.append(n['n'])
        elif n['k'] == 'grp':
            out += direct_vars(n['c'])
    return out


def flat(nodes):
    out = []
    for n in nodes:
        if n['k'] == 'grp':
            out.append(('open', n['d']))
            out += flat(n['c'])
            out.append(('close', n['d']))
        elif n['k'] == 'rep':
            out.append(('open', '#('))
            out += flat(n['c'])
            out.append(('close', '#('))
        elif n['k'] == 'var':
            out.append(('var', n['n']))
        else:
            out.append(('tok', n['t']))
    return out


def lint(ctx, R, repo):
    d = genlint_json(repo)
    L = Lint(d)
    n_rep = 0
    gen_templates = [t for t in d['templates'] if 'ServiceGenerator' in t['fn']]
    R.ob('C17.lint', ('generator', 'templates found'), len(gen_templates) >= 8, 'the generator\'s quote! templates were parsed', [], '%d templates' % len(gen_templates))
    for t in gen_templates:
        short = t['fn'].split('/')[-1]
        for depth, rep in walk_reps(t['tree']):
            n_rep += 1
            vs = direct_vars(rep['c'])
            # vars in nested reps belong to those reps
            bad, seqs = [], []
            for v in vs:
                c = L.var_class(v, t['fn'])
                if c[0] == 'bad':
                    bad.append('%s: %s' % (v, c[1]))
                elif c[0] == 'seq':
                    seqs.append(v)
            inner_has = any(True for _ in walk_reps(rep['c']))
            R.ob('C17.lint', (short, 'repetition %d at depth %d' % (n_rep, depth), ','.join(sorted(set(vs)))), not bad,
                 'every sequence interpolated in this repetition is an order-preserving image of the method list (lock-step with every other one)', ['plugins/src/lib.rs:%d' % t['line']],
                 '; '.join(bad))
        # pairing of identifiers: X :: Y inside repetitions
        fl = flat(t['tree'])
        for i in range(len(fl) - 3):
            if fl[i][0] == 'var' and fl[i + 1] == ('tok', ':') and fl[i + 2] == ('tok', ':') and fl[i + 3][0] == 'var':
                x, y = fl[i][1], fl[i + 3][1]
                if L.var_class(y, t['fn'])[0] != 'seq':
                    continue
                okp = (x, y) in (('request_ident', 'camel_case_idents'), ('response_ident', 'camel_case_idents'), ('service_ident', 'method_idents'))
                R.ob('C17.lint', (short, 'path #%s::#%s' % (x, y)), okp, 'variants are named by the camel-cased method sequence and trait methods by the method-name sequence', ['plugins/src/lib.rs:%d' % t['line']])
            if fl[i] == ('tok', 'fn') and fl[i + 1][0] == 'var' and L.var_class(fl[i + 1][1], t['fn'])[0] == 'seq':
                R.ob('C17.lint', (short, 'fn #%s' % fl[i + 1][1]), fl[i + 1][1] == 'method_idents', 'generated methods are named by the method-name sequence', ['plugins/src/lib.rs:%d' % t['line']])
    if n_rep < 12:
        raise CannotDecide('only %d repetitions found in the generator templates (floor 12)' % n_rep)
    # no in-place mutation of any sequence in the generator fn
    seq_vars = {v for v in list(L.lets.get(L.gen_fn, {})) + ['rpcs'] if L.var_class(v, L.gen_fn)[0] == 'seq' or v == 'rpcs'}
    muts = [(f, r, m) for f, r, m in L.mut_calls if f == L.gen_fn and r.replace(' ', '') in seq_vars]
    R.ob('C17.lint', ('generator', 'sequences never reordered in place'), not muts, 'no sequence derived from the method list is mutated after it was built', [], str(muts))
    # request name format
    strs = [s['s'] for s in d['strings'] if s['fn'] == L.gen_fn]
    R.ob('C17.lint', ('generator', 'request name format'), any(s.replace(' ', '') in ('{ident}.{m}', '{}.{}') for s in strs), 'request names are formatted as "<Service>.<method>"', [], str([s for s in strs if '.' in s][:4]))
    # reserved names: fixed fns the templates add next to user methods
    needed = set()
    for t in gen_templates:
        header = []
        for n in t['tree']:
            if n['k'] == 'grp' and n['d'] == '{':
                toks = [h['t'] for h in header if h['k'] == 'tok']
                is_trait = 'trait' in toks
                is_inherent = 'impl' in toks and 'for' not in toks
                if is_trait or is_inherent:
                    fl = flat(n['c'])
                    for i in range(len(fl) - 1):
                        if fl[i] == ('tok', 'fn') and fl[i + 1][0] == 'tok':
                            needed.add(fl[i + 1][1])
                header = []
            else:
                header.append(n)
    # the literals the parser compares method names with: in the Parse impl itself or in the (non-generator) helper functions it delegates the check to
    rejected = {s['s'] for s in d['strings'] if 'Parse for Service' in s['fn'] or (s['fn'] != L.gen_fn and not s['fn'].startswith(L.gen_fn + '/') and s['s'] in needed)}
    R.ob('C17.lint', ('generator', 'reserved names rejected'), bool(needed) and needed <= rejected,
         'every fixed associated fn the templates add to a namespace shared with user methods (%s) is rejected by the parser' % sorted(needed), [], 'rejected literals: %s' % sorted(x for x in rejected if ' ' not in x))
    return n_rep


def run(ctx):
    R = ctx.run
    R.level = 'translation_validation'
    R.explanation = META['text']
    R.rule_text = ('programs = services of the generated corpus; each is compiled by rustc with the macro from /repo and its expansion (MIR) is compared with the definition; '
                   'a disagreement is any generated method / arm / name that does not match its own definition; non-trivial = a service with >= 1 method')
    R.assumptions = ['rustc macro expansion + type checking', 'quote! repetition semantics']
    corp = corpus(ctx.tier)
    src = render(corp)
    n_rep = lint(ctx, R, extract.REPO)
    checked = 0
    try:
        fp = extract.harness_facts('verif_corpus', src, repo=extract.REPO)
    except extract.ExtractError as e:
        # the corpus compiles against the pinned tree; if tarpc itself still builds, the macro now rejects or
        # miscompiles a definition it accepted
        ctx.facts('full')
        msg = str(e)
        errs = [l for l in msg.splitlines() if l.startswith('error')]
        R.ob('C17.corpus', ('corpus', 'every accepted definition still compiles'), False,
             'a service definition of the corpus no longer compiles with the macro from this tree (arity / type errors in the generated glue)', [], '; '.join(errs[:6]))
        fp = None
    if fp is not None:
        R.ob('C17.corpus', ('corpus', 'every accepted definition still compiles'), True, 'all corpus services compile with the macro from this tree', [])
        F = Facts(fp)
        P = Prov(F)
        for i, s in enumerate(corp):
            checked += validate(R, F, P, i, s)
    R.info['configs'] = ['harness: tarpc features serde1']
    R.info['programs'] = len(corp)
    R.info['disagreements_checked'] = checked
    R.info['template_repetitions'] = n_rep
    R.info['corpus_methods'] = sum(len(s['methods']) for s in corp)
    if fp is not None and checked < 20:
        raise CannotDecide('only %d generated items validated (floor 20)' % checked)
