"""C10 Shutdown is orderly: queued work is drained first — E-SHAPE exit-state rules."""
from engine.facts import CannotDecide, callee_is
from engine.prov import const_int
from engine.shape import STAR, poll_outcome, is_ready_ok
from .common import reachable_local_fns
from .shape_common import (classify, find_cell_accessors, run_jobs, cmp_sites_for, server_chains, chain_name)

EXTRA_CONFIGS = ('default', 'tokio1', 'serde1', 'serde-transport')   # feature configurations re-analysed in the thorough tier
META = {
    'level': 'other',
    'technique': 'static exit-state analysis with the shape walker: small automata recording the last outcome of each queue / stream / timer / flush, evaluated at every way the entry point can return a terminal value',
    'text': 'Decides on every abstract path: the client closes the transport\'s write side only in a state where both the request queue and the cancellation queue have returned '
            'Ready(None) (closed and drained — tokio delivers queued items first); the dispatch completes with Ok only if the read side ended or (the write side was closed and the in-flight '
            'table is empty); the server channel\'s stream ends only if, in that iteration, the transport read returned Ready(None) and the deadline source is exhausted; the request stream '
            'ends only after the inbound side ended, the last flush completed and (nothing is in flight or the response queue is closed); and no removal from the server\'s in-flight table leaves its deadline timer armed, so the deadline source the channel waits for is exhausted as soon as nothing is in flight. A cancellation id taken from the queue whose entry was removed is written in the same activation (C10.owed), so it cannot be missing when the write side is closed. The client dispatch goes idle only with its two queues and the transport read registered (C10.drain, C10.read), so queued work and the peer\'s close are noticed without other traffic. NOT decided: promptness as a time bound.',
    'note': 'Trusted: tokio mpsc returns Ready(None) only when closed and drained; Fuse. Unknown callees are forked over all result shapes.',
}


class DoneAut:
    name = 'done'

    def init(self):
        return ('unpolled', False, None)

    def step(self, aut, ev, shape, site, X):
        r, w, e = aut
        if ev[0] == 'R':
            r = poll_outcome(shape)
        if ev == ('W', 'poll_close') and is_ready_ok(shape):
            w = True
        if ev == ('M', 'is_empty'):
            e = shape if isinstance(shape, bool) else None
        if ev == ('M', 'remove') or ev == ('M', 'drain') or (ev[0] == 'Q' and 'Some' in repr(shape)):
            e = None
        return (r, w, e)


class ChanEndAut:
    """server: (R last, T last, last flush ok, response queue closed)"""
    name = 'chanend'

    def init(self):
        return ('unpolled', 'unpolled', False, False)

    def step(self, aut, ev, shape, site, X):
        r, t, fl, p = aut
        if ev[0] == 'R':
            r = poll_outcome(shape)
        if ev[0] == 'T':
            if ev[1] == 'is_empty':
                if shape is True:
                    t = 'Closed'
                elif shape is False and t == 'Closed':
                    t = 'unpolled'
            else:
                t = poll_outcome(shape)
        if ev[0] == 'W':
            if ev[1] == 'poll_flush':
                fl = is_ready_ok(shape)
            elif ev[1] == 'start_send':
                fl = False
        if ev[0] == 'P':
            p = poll_outcome(shape) == 'Closed'
        return (r, t, fl, p)


def _kill_idle(ev, shape):
    if ev[0] == 'M' and ev[1] in ('remove', 'drain') and 'Some' in repr(shape) + ('Some' if ev[1] == 'drain' else ''):
        return ('idle=', 'idle!')
    if ev[0] == 'R' and 'Some' in repr(shape):
        return ('idle=', 'idle!')
    return ()


def run(ctx):
    F, P, R = ctx.F, ctx.P, ctx.run
    R.explanation = META['text']
    R.rule_text = 'one obligation per (entry point x chain, terminal exit clause), states explored to fixpoint'
    R.assumptions = ['tokio mpsc: Ready(None) only when closed and drained']
    R.info['configs'] = ['full']
    poll = F.trait_method('Future', 'client::RequestDispatch', 'poll')
    acc, fields = find_cell_accessors(F, P, 'client::RequestDispatch', lambda t: t.startswith('std::option::Option<') and 'ChannelError' in t)
    cell = sorted(fields)[0] if fields else None
    cells = [((cell, 'None'),), ((cell, ('Some', STAR)),)] if cell else [()]
    bpn = F.trait_method('Stream', 'server::BaseChannel', 'poll_next')
    rp = F.trait_method('Stream', 'server::Requests', 'poll_next')
    chains = server_chains(F)
    if ctx.tier == 'quick':
        chains = [c for c in chains if len(c) <= 2]
    R.info['chains'] = [chain_name(c) for c in chains]
    # idle comparison sites: in_flight_requests() == 0
    srv = [f for f in F.fns.values() if f.id.startswith('tarpc::server::')]
    is_cnt = lambda x: bool(P.root(x)) and all(P.is_call(r, 'Channel::in_flight_requests', 'HashMap::len') for r, _ in P.root(x))
    is_zero = lambda x: const_int(x) == 0
    idle = cmp_sites_for(F, P, srv, is_cnt, is_zero, 'idle')
    jobs = [
        {'key': 'close', 'entry': poll.id, 'aut': ('close',), 'acc': acc, 'cells': cells},
        {'key': 'done', 'entry': poll.id, 'aut': ('custom', DoneAut), 'acc': acc, 'cells': cells},
        {'key': 'base', 'entry': bpn.id, 'aut': ('custom', ChanEndAut)},
    ]
    for ch in chains:
        jobs.append({'key': 'req:' + chain_name(ch), 'entry': rp.id, 'aut': ('custom', ChanEndAut), 'chain': ch, 'cmp_sites': idle, 'kill_facts': _kill_idle})
    res = run_jobs(F, jobs)
    R.count('states_explored', sum(r['stats'].get('states', 0) for r in res.values()))

    # (1) close only when both queues are closed and drained
    c = res['close']
    bad = [k for k in c['viol'] if k[0] == 'CLOSE_BEFORE_BOTH_QUEUES_CLOSED']
    n_ok = c['stats'].get('close_with_both_queues_closed', 0)
    R.ob('C10.close', ('client dispatch poll', 'poll_close only after both queues ended'), not bad and n_ok >= 1,
         'the write side is closed only in states where the request queue and the cancellation queue both returned Ready(None): everything queued was transmitted first',
         sorted({s for k in bad for s in c['viol'][k]}) or [poll.loc(poll.d)], 'bad states (Q,K): %s; good close states: %d' % ([k[1:] for k in bad], n_ok))
    # (2) Ok completion
    d = res['done']
    oks = [(ret, e[0]) for (ret, e, lab) in d['exits'] if isinstance(ret, tuple) and ret[0] == 'Ready' and isinstance(ret[1], tuple) and ret[1][0] == 'Ok']
    badok = sorted({a for ret, a in oks if not (a[0] == 'Closed' or (a[1] and a[2] is True))}, key=repr)
    R.ob('C10.done', ('client dispatch poll', 'completes Ok only when read side ended or (write side closed and nothing in flight)'), bool(oks) and not badok,
         'the dispatch ends successfully only if the peer ended the read side, or the write side was closed and the in-flight table is empty', [poll.loc(poll.d)],
         'offending (R last, closed, table empty): %s' % badok)
    # read-half close ends the dispatch promptly: if R closed the result is Ready
    pend_after_r_closed = [e[0] for (ret, e, lab) in d['exits'] if ret == 'Pending' and e[0][0] == 'Closed' and not any(isinstance(v, tuple) and v and v[0] == 'Some' for _, v in e[1])]
    R.ob('C10.done', ('client dispatch poll', 'peer close ends the dispatch'), not pend_after_r_closed,
         'once the read side returned Ready(None) the dispatch does not go back to waiting', [poll.loc(poll.d)])
    # (3) base channel stream end
    b = res['base']
    ends = [e[0] for (ret, e, lab) in b['exits'] if ret == ('Ready', 'None')]
    badb = sorted({(a[0], a[1]) for a in ends if not (a[0] == 'Closed' and a[1] == 'Closed')})
    R.ob('C10.channel', ('<BaseChannel as Stream>::poll_next', 'ends only when inbound ended and no deadline is pending'), bool(ends) and not badb,
         'the channel\'s stream ends only if the transport read returned Ready(None) and the deadline source is exhausted (no request still in flight or expiring)', [bpn.loc(bpn.d)],
         'offending (R last, T last): %s' % badb)
    # (4) request stream end
    for ch in chains:
        r = res['req:' + chain_name(ch)]
        ends = [(e[0], dict(e[2])) for (ret, e, lab) in r['exits'] if ret == ('Ready', 'None')]
        badr = []
        for a, facts in ends:
            idle_ok = facts.get('idle=') is True or facts.get('idle!') is False
            if not (a[0] == 'Closed' and a[1] == 'Closed' and a[2] and (a[3] or idle_ok)):
                badr.append((a, idle_ok))
        R.ob('C10.requests', ('Requests<%s>::poll_next' % chain_name(ch), 'ends only when inbound ended, flushed, and nothing in flight'), bool(ends) and not badr,
             'the request stream ends only after the inbound side ended, the last flush completed, and (no request is in flight or the response queue is closed)', [rp.loc(rp.d)],
             'offending ((R last, T last, flushed, responses closed), idle): %s' % sorted(set(badr), key=repr)[:6])
    # (5) the deadline source the channel waits for is exhausted as soon as nothing is in flight: no removal leaves its timer behind
    from .C11 import removal_pairing
    removal_pairing(ctx, 'C10.timers', 'server')
    # (6) cancellations for abandoned calls are transmitted before the close: the guard's request to cancel is always queued (what is queued is drained, clause 1)
    from .common import cancel_always_enqueues
    cancel_always_enqueues(ctx, 'C10.cancelq')
    # (7) "transmits every queued request and cancellation, then closes": the dispatch never goes idle while one of its two queues may still hold an item it
    # has not been woken for (same exploration as C02 / C03, shared through the cache)
    from .wake import source_jobs, pending_states, source_ok
    poll_, reach_, wjobs = source_jobs(F, P, ('Q', 'K', 'R'))
    wres = run_jobs(F, wjobs)
    # "transmits every queued ... cancellation, then closes": an id taken from the cancellation queue whose entry was removed is written in the same activation — it
    # cannot be dropped at a Pending return and then be missing when the write side is closed (the C03.owed exploration)
    from .C03 import owed_rule
    owed_rule(ctx, 'C10.owed', poll)
    # (8) "when the peer ends the read side the dispatch stops promptly": the transport's read half is registered on every idle return (also while nothing is in
    # flight — end-of-stream arrives on it), except in the final drain after the write side closed
    keys_r = pending_states(wres['R'])
    badr_ = [k for k in keys_r if not source_ok('R', k)]
    R.ob('C10.read', ('client dispatch poll', 'transport read registered on every idle return'), not badr_ and len(keys_r) >= 2,
         'the dispatch returns Pending only with the transport read polled last with Pending (or ended): the peer closing its end is noticed without waiting for other traffic',
         [poll.loc(poll.d)], 'offending exit states (last outcome, w_wait, drain, at_capacity): %s' % badr_)
    for src, nm in (('Q', 'request queue'), ('K', 'cancellation queue')):
        keys = pending_states(wres[src])
        badk = [k for k in keys if not source_ok(src, k)]
        R.ob('C10.drain', ('client dispatch poll', nm + ' registered on every idle return'), not badk and len(keys) >= 2,
             'the dispatch returns Pending only with the %s polled to Pending (or ended), or while the transport is not writeable or the in-flight table is full: queued work is never left behind without a wake-up' % nm,
             [poll.loc(poll.d)], 'offending exit states (last outcome, w_wait, drain, at_capacity): %s' % badk)
