"""C02 Every call terminates; no wakeup is lost — wake-registration per source, terminal fan-out, no leaks (E-SHAPE, E-Q)."""
from engine.facts import CannotDecide, callee_is, strip_generics, path_matches
from engine.shape import STAR
from .common import Table, reachable_local_fns, in_module
from .shape_common import (classify, find_cell_accessors, run_jobs, cmp_sites_for, fact_true, label_is_progress)
from .wake import source_jobs, pending_states, source_ok

EXTRA_CONFIGS = ('default', 'tokio1', 'serde1', 'serde-transport')   # feature configurations re-analysed in the thorough tier
META = {
    'level': 'other',
    'technique': 'static wake-registration analysis: explicit-state abstract interpretation of the dispatch poll (shape walker) with one small automaton per wake source joined with the context '
                 'bits its exemptions need; ordering automaton for the terminal fan-out; who-may-call query for leak primitives',
    'text': 'Decides for every abstract path of one activation of the client dispatch poll that returns Pending, per wake source (transport read R, request queue Q, cancellation queue K, '
            'deadline timers T): the source was polled last with a Pending result (its waker is registered) or has ended, except under the enumerated exemptions — K and Q may be left '
            'unpolled while a write-side poll is Pending (w_wait), Q while the in-flight table is at capacity (then R and T, which carry no exemption, are what frees capacity: the source '
            'comment turned into checked obligations), everything but Q during the terminal-error drain. Also: every path returning Ready(Err) has closed the request queue, failed all '
            'in-flight entries and drained the queue, in that order; and no leak primitive (mem::forget, ManuallyDrop, Box::leak, into_raw) exists in tarpc, so table entries and queued '
            'requests are dropped with the dispatch and their callers observe Shutdown (C09). NOT decided: that the system reaches quiescence (fairness, executor, tokio wakers) — a liveness '
            'property over schedules.',
    'note': 'Trusted: a Pending result from tokio mpsc / DelayQueue / the transport registers the current waker; closed sources stay closed. Unknown callees are forked over all result shapes.',
}

LEAKS = ('std::mem::forget', 'std::mem::ManuallyDrop::new', 'std::boxed::Box::leak', 'std::sync::Arc::into_raw', 'std::rc::Rc::into_raw', 'std::boxed::Box::into_raw',
         'std::mem::MaybeUninit::uninit', 'std::ptr::write')


class FanoutAut:
    """order of the terminal fan-out: 0 start, 1 queue closed, 2 in-flight failed, 3 queue drained"""
    name = 'fanout'

    def init(self):
        return 0

    def step(self, aut, ev, shape, site, X):
        if ev[0] == 'CLOSEQ':
            return max(aut, 1) if aut == 0 else aut
        if ev == ('M', 'drain'):
            if aut == 1:
                return 2
            if aut == 0:
                X.violation(('FAIL_ALL_BEFORE_QUEUE_CLOSED',), site)
            return aut
        if ev[0] == 'Q' and ev[1] == 'poll_recv' and shape == ('Ready', 'None'):
            if aut == 2:
                return 3
        return aut


def run(ctx):
    F, P, R = ctx.F, ctx.P, ctx.run
    R.explanation = META['text']
    R.rule_text = 'one obligation per (wake source, distinct Pending exit state) of the dispatch poll, explored to fixpoint; plus fan-out ordering and leak-primitive query'
    R.assumptions = ['a Pending result registers the waker', 'closed queues stay closed']
    R.info['configs'] = ['full']
    # every tracked call keeps an armed deadline timer until it is resolved: with a silent peer the timer is the only thing left that can wake the
    # dispatch for it (entry present => timer armed: the timer is armed at registration [C05], removed only together with the entry, and an expiry
    # always removes the entry it fired for)
    from .C11 import removal_pairing
    from .deadlines import expiry_rules
    removal_pairing(ctx, 'C02.timer', 'client')
    expiry_rules(ctx, 'C02.timer', 'client', Table(F, 'client'))
    poll, reach, jobs = source_jobs(F, P, ('R', 'Q', 'K', 'T'), extra=[{'key': 'fanout', 'aut': ('custom', FanoutAut), 'depth': 4}])
    res = run_jobs(F, jobs)
    tot_states = 0
    for src in ('R', 'Q', 'K', 'T'):
        r = res[src]
        tot_states += r['stats'].get('states', 0)
        keys = pending_states(r)
        for key in keys:
            R.ob('C02.wake', ('dispatch poll', 'source ' + src, 'exit state: last=%s w_wait=%s drain=%s at_capacity=%s' % key), source_ok(src, key),
                 'on this way of returning Pending, source %s is registered, ended, or covered by an enumerated exemption' % src, [poll.loc(poll.d)])
        if len(keys) < 2:
            raise CannotDecide('source %s: only %d distinct Pending exit states (floor 2)' % (src, len(keys)))
        R.count('pending_exit_states_' + src, len(keys))
    R.count('states_explored', tot_states + res['fanout']['stats'].get('states', 0))
    # capacity exemption is admissible only because R and T carry no exemption (checked above) — recorded
    R.info['exemptions'] = {'R': ['drain'], 'T': ['drain'], 'K': ['drain', 'w_wait'], 'Q': ['w_wait', 'at_capacity (non-drain)']}

    # ------------------------------------------------------------------ terminal fan-out
    fr = res['fanout']
    errs = [(ret, e) for (ret, e, lab) in fr['exits'] if isinstance(ret, tuple) and ret[0] == 'Ready' and isinstance(ret[1], tuple) and ret[1][0] == 'Err']
    R.ob('C02.fanout', ('dispatch poll', 'error exits exist'), len(errs) >= 1, 'the dispatch can end with an error', [poll.loc(poll.d)])
    bad = sorted({e[0] for ret, e in errs if e[0] != 3})
    R.ob('C02.fanout', ('dispatch poll', 'close queue, fail in-flight, drain queue before returning the error'), not bad,
         'every path that returns Ready(Err) has closed the request queue, failed every in-flight call and drained the queued ones, in that order', [poll.loc(poll.d)],
         'exit stages reached: %s (3 = complete)' % sorted({e[0] for ret, e in errs}))
    R.ob('C02.fanout', ('dispatch poll', 'in-flight failed only after the queue is closed'), not fr['viol'],
         'later calls fail fast: the queue is closed before outstanding calls are failed', sorted({s for v in fr['viol'].values() for s in v}))
    # drained requests are answered with an error unless their caller is gone: send sites in the draining body
    # (shape of the value: C01.5)

    # ------------------------------------------------------------------ no leaks
    leaks = [(f, t) for f, bb, t in F.all_calls(*[l.split('::', 1)[1] if False else l for l in LEAKS]) if not F.is_derived(f)]
    leaks = [(f, t) for f, t in leaks if 'pin_project' not in ' '.join(t.get('expn', []))]
    R.ob('C02.leak', ('tarpc', 'no leak primitives'), not leaks,
         'no value is ever leaked (mem::forget, ManuallyDrop::new, Box::leak, into_raw): dropping the dispatch drops every table entry and queued request', [f.loc(t) for f, t in leaks])
    # positive control: the query matches a synthetic call
    from engine.facts import callee_is as ci
    R.ob('C02.leak', ('query self-test', 'matcher fires on std::mem::forget'), ci({'callee': 'std::mem::forget::<T>'}, *LEAKS), 'positive control for the zero-expected query', [], trivial=True)
    R.count('functions_analysed', len(reach))
