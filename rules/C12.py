"""C12 Per-channel request limit throttles exactly the excess — E-SHAPE throttle automaton + E-PROV reply content."""
from engine.facts import CannotDecide, callee_is, path_matches
from engine.shape import STAR
from .common import reachable_local_fns, norm_path
from .shape_common import classify, run_jobs, cmp_sites_for, fact_true, fact_false, server_chains, chain_name

EXTRA_CONFIGS = ('default', 'tokio1', 'serde1', 'serde-transport')   # feature configurations re-analysed in the thorough tier
META = {
    'level': 'other',
    'technique': 'static typestate analysis with the shape walker (throttle automaton over hand-off / reply events with a dominating-comparison fact) plus provenance of the throttle reply',
    'text': 'Decides on every abstract path of MaxRequests::poll_next over its decorator chains: a request read from the inner channel is handed to the application only under the fact '
            'in_flight < limit established after the last event that could change the count; a request read under in_flight >= limit is answered by exactly one start_send before anything '
            'else is read and is never yielded; the limit compared is the constructor argument stored unchanged (no clamp or arithmetic: L = 0 refuses everything); the reply is Response{request_id: that request\'s id, message: Err(ServerError{kind: WouldBlock, ..})}; readiness precedes the read (C14). '
            'The stale-guard clause — no call that may retire a request between evaluating the guard and the refusal it licenses — fails at the inner poll_next (known finding D6).',
    'note': 'Trusted: Channel::in_flight_requests reports the table size (C11). Known finding D6: the guard is evaluated before inner.poll_next, which may itself retire requests (a Cancel '
            'read in the same poll), so a request can be refused although fewer than L were in flight when it was read.',
}


class ThrottleAut:
    """state: (phase, guard) — phase: idle | read_limit (read while at the limit, not yet answered) | answered | read_free (read below the limit)
    guard: fact value seen at the read: True (at limit), False (below), None (stale / unknown)"""
    name = 'throttle'

    def init(self):
        return ('idle', None)

    def step(self, aut, ev, shape, site, X):
        phase, g = aut
        if ev[0] == 'I':   # the inner channel's stream yielded
            if not (isinstance(shape, tuple) and shape[0] == 'Ready' and isinstance(shape[1], tuple) and shape[1][0] == 'Some' and isinstance(shape[1][1], tuple) and shape[1][1][0] == 'Ok'):
                return aut
            if phase == 'read_limit':
                X.violation(('REFUSED_REQUEST_NOT_ANSWERED',), site)
            facts = X.cur_facts
            # hand-off direction: the guard evaluated before this read said "below the limit"; retirements since then only lower the count
            if fact_false(facts, 'limitH'):
                return ('read_free', False)
            # refusal direction: the guard must still be valid (no retirement since it was evaluated)
            if fact_true(facts, 'limit'):
                return ('read_limit', True)
            if fact_true(facts, 'limitH'):
                return ('read_stale', None)
            return ('read_unguarded', None)
        if ev == ('S', 'start_send'):
            if phase == 'read_limit':
                return ('answered', g)
            if phase == 'read_stale':
                X.violation(('REFUSED_UNDER_STALE_GUARD',), site)
                return ('answered', g)
            if phase == 'read_unguarded':
                X.violation(('REPLIED_WITHOUT_GUARD',), site)
                return ('answered', g)
            if phase == 'answered':
                X.violation(('SECOND_REPLY_FOR_ONE_REFUSAL',), site)
            if phase == 'read_free':
                X.violation(('REPLIED_TO_A_REQUEST_BELOW_THE_LIMIT',), site)
            return aut
        return aut


def _kill(ev, shape):
    # events that may change the in-flight count
    if ev == ('M', 'remove') and 'Some' in repr(shape):
        return ('limit+', 'limit-')
    if ev == ('M', 'drain'):
        return ('limit+', 'limit-')
    if ev[0] == 'R' and 'Some' in repr(shape):
        return ('limit+', 'limit-')
    return ()


def _kill_no_registration(ev, shape):
    # `limit`: valid until something retires a request (successful removal);
    # `limitH`: the evaluation preceding the next read from the inner channel; consumed by that read and by a reply
    out = ()
    if (ev == ('M', 'remove') and 'Some' in repr(shape)) or ev == ('M', 'drain'):
        out += ('limit+', 'limit-')
    if ev[0] == 'I' and 'Some' in repr(shape):
        out += ('limitH+', 'limitH-')
    if ev == ('S', 'start_send'):
        out += ('limit+', 'limit-', 'limitH+', 'limitH-')
    return out


def boundary(t, f, callee_f, level, nlevel):
    # the devirtualised call from the limiter into its inner channel's Stream::poll_next
    if nlevel == level + 1 and (t.get('callee') or '').endswith('Stream::poll_next') and 'requests_per_channel' in f.id:
        return ('I', 'poll_next')
    # the limiter's own reply: its call to a Sink::start_send impl from its stream body
    if (t.get('callee') or '').endswith('Sink::start_send') and 'requests_per_channel' in f.id and nlevel in (level, level + 1) \
            and not (f.impl_of and (f.impl_of.get('trait') or '').split('<')[0].endswith('Sink')):
        return ('S', 'start_send')    # through its own Sink impl, or directly on the channel it wraps
    return None


def run(ctx):
    F, P, R = ctx.F, ctx.P, ctx.run
    R.explanation = META['text']
    R.rule_text = 'one obligation per (decorator chain, clause); states explored to fixpoint'
    R.assumptions = ['in_flight_requests() is the number of tracked requests']
    R.info['configs'] = ['full']
    mr = F.trait_method('Stream', 'requests_per_channel::MaxRequests', 'poll_next')
    lim_field = F.field_of_type('requests_per_channel::MaxRequests', lambda t: t == 'usize')
    is_cnt = lambda x: bool(P.root(x)) and all(P.is_call(r, 'Channel::in_flight_requests') for r, _ in P.root(x))
    is_lim = lambda x: bool(P.root(x, through_params=True)) and all(r[0] == 'param' and P.fpath(p)[-1:] == (lim_field,) for r, p in P.root(x, through_params=True))   # also when handed to a predicate helper
    cmps = cmp_sites_for(F, P, reachable_local_fns(F, mr, depth=2), is_cnt, is_lim, 'limit')
    cmps = {k: v + '|limitH' + v[-1] for k, v in cmps.items()}
    R.ob('C12.guard', ('MaxRequests::poll_next', 'limit comparison'), len(cmps) == 1 and list(cmps.values())[0].split('|')[0] in ('limit+', 'limit-'),
         'the limiter compares in_flight_requests() with its limit using >= (or <)', [mr.loc(mr.d)], str(list(cmps.values())))
    if not cmps:
        return
    inner = [c[1:] for c in server_chains(F) if c[0].endswith('MaxRequests')]
    if ctx.tier == 'quick':
        inner = [c for c in inner if len(c) <= 1]
    jobs = []
    for ch in inner:
        jobs.append({'key': chain_name(ch), 'entry': mr.id, 'aut': ('custom', ThrottleAut), 'chain': ch, 'cmp_sites': cmps, 'kill_facts': _kill_no_registration, 'boundary': boundary})
        jobs.append({'key': 'sink:' + chain_name(ch), 'entry': mr.id, 'aut': ('sink',), 'chain': ch})
    res = run_jobs(F, jobs)
    for ch in inner:
        r = res[chain_name(ch)]
        name = 'MaxRequests<%s>::poll_next' % chain_name(ch)
        R.count('states_explored', r['stats'].get('states', 0))
        v = {k[0]: sorted(s) for k, s in r['viol'].items()}
        exits = r['exits']
        yielded = [(ret, e[0]) for (ret, e, lab) in exits if isinstance(ret, tuple) and ret[0] == 'Ready' and isinstance(ret[1], tuple) and ret[1][0] == 'Some'
                   and isinstance(ret[1][1], tuple) and ret[1][1][0] == 'Ok']
        R.ob('C12.handoff', (name, 'can hand requests to the application'), bool(yielded), 'the limiter yields requests', [mr.loc(mr.d)])
        bad = sorted({a for ret, a in yielded if a[0] != 'read_free'}, key=repr)
        R.ob('C12.handoff', (name, 'hand-off only below the limit'), not bad,
             'a request is handed to the application only if it was read under in_flight < limit (evaluated after the last retirement)', [mr.loc(mr.d)], 'offending states: %s' % bad)
        pend_unanswered = sorted({e[0] for (ret, e, lab) in exits if e[0][0] == 'read_limit' and not (isinstance(ret, tuple) and 'Err' in repr(ret))}, key=repr)
        R.ob('C12.reply', (name, 'every refused request is answered'), 'REFUSED_REQUEST_NOT_ANSWERED' not in v and not pend_unanswered,
             'a request read while at the limit is answered before the limiter reads again or returns (except on a transport error)', v.get('REFUSED_REQUEST_NOT_ANSWERED', []) or [mr.loc(mr.d)])
        R.ob('C12.reply', (name, 'exactly one reply per refusal'), 'SECOND_REPLY_FOR_ONE_REFUSAL' not in v, 'a refused request receives one throttle response, not more', v.get('SECOND_REPLY_FOR_ONE_REFUSAL', []))
        R.ob('C12.reply', (name, 'no reply without a guard'), 'REPLIED_WITHOUT_GUARD' not in v, 'a throttle reply is sent only for a request read after the limit comparison said "at the limit"', v.get('REPLIED_WITHOUT_GUARD', []))
        R.ob('C12.reply', (name, 'no reply to admitted requests'), 'REPLIED_TO_A_REQUEST_BELOW_THE_LIMIT' not in v, 'a request read below the limit is never answered with a throttle error', v.get('REPLIED_TO_A_REQUEST_BELOW_THE_LIMIT', []))
        sv = res['sink:' + chain_name(ch)]['viol']
        nr = [k for k in sv if k[0] == 'START_SEND_WITHOUT_READY']
        R.ob('C12.reply', (name, 'each throttle reply is written under its own readiness grant'), not nr,
             'every throttle reply is preceded by a poll_ready that returned Ready(Ok) for it, so the reply is not lost on a full sink', sorted({s_ for k in nr for s_ in sv[k]}))
        R.ob('C12.stale', (name, 'refusal under a guard that is still valid'), 'REFUSED_UNDER_STALE_GUARD' not in v,
             'between evaluating in_flight >= limit and refusing the request read next, nothing retires a request', v.get('REFUSED_UNDER_STALE_GUARD', []),
             'the inner poll_next may retire requests (Cancel message, expiry, guard queue) before yielding the request that is then refused')

    # ------------------------------------------------------------------ the limit compared is the limit the user asked for (E-PROV)
    def limit_identity(adt_suffix, field, seen=()):
        """every construction site of the limiter stores, unchanged, a parameter of a public function or the limit field of another limiter"""
        aggs = list(F.all_aggregates(adt_suffix))
        if not aggs:
            raise CannotDecide('no construction site of %s' % adt_suffix)
        for f, i, j, s_ in aggs:
            rs = P.root(P._field(('agg', f.id, i, j), field), through_params=True)
            ok, det = bool(rs), []
            for r, p in rs:
                vp = norm_path(p)
                det.append(P.describe(r) + str(list(vp)))
                if r[0] != 'param':
                    ok = False
                    continue
                if not vp:
                    continue   # the caller's own argument, unchanged
                if len(vp) == 1 and vp[0][0] == 'f':
                    owner = strip_refs_pin(F.fns[r[1]].local_ty(r[2]))
                    if owner and (owner, vp[0][1]) not in seen and F.adts.get(owner.split('<')[0]) is not None and [x for x in F.adts[owner.split('<')[0]]['variants'][0]['fields'] if x[0] == vp[0][1] and x[1] == 'usize']:
                        limit_identity(owner.split('<')[0], vp[0][1], seen + ((owner, vp[0][1]),))
                        continue
                ok = False
            R.ob('C12.limit', (F.enclosing_item(f).npath, 'limit stored unchanged'), ok,
                 'the limit a limiter enforces is the caller\'s argument itself (for every L >= 0, including 0): no arithmetic, clamp or constant on the way from the public constructor to the comparison',
                 [f.loc(s_)], '; '.join(det))

    def strip_refs_pin(ty):
        from engine.facts import strip_refs, ty_head
        ty = strip_refs(ty)
        while ty.startswith('std::pin::Pin<'):
            ty = strip_refs(ty_head(ty)[1][0])
        return ty
    limit_identity('requests_per_channel::MaxRequests', lim_field)

    # ------------------------------------------------------------------ reply content (E-PROV)
    sends = [(g, bb, t) for g in reachable_local_fns(F, mr, depth=2) for bb, t in g.calls() if callee_is(t, 'Sink::start_send')
             and 'requests_per_channel' in g.id and not (g.impl_of and (g.impl_of.get('trait') or '').split('<')[0].endswith('Sink'))]
    R.ob('C12.content', ('MaxRequests::poll_next', 'one reply site'), len(sends) == 1, 'the limiter writes at one site', [g.loc(t) for g, _, t in sends] or [mr.loc(mr.d)])
    for g_, bb, t in sends:
        rr = [r for r, _ in P.root(P.operand(g_, t['args'][1], at=bb), through_params=True)]
        ok = len(rr) == 1 and rr[0][0] == 'agg' and path_matches(P._agg_rv(rr[0])['adt'], 'Response')
        det = ''
        if ok:
            idr = P.root(P._field(rr[0], 'request_id'), through_params=True)
            ok_id = bool(idr) and all(P.is_call(r, 'Stream::poll_next') and P.fpath(p)[-2:] == ('request', 'id') for r, p in idr)
            msg = P.root(P._field(rr[0], 'message'))
            ok_msg = False
            for m, _ in msg:
                if m[0] == 'agg' and P._agg_rv(m)['variant'] == 'Err':
                    inner_ = P.root(P._field(m, 0, 0))
                    for se, _ in inner_:
                        seu = P.unbound(se)     # the error may be built by the crate's own constructor fn (`ServerError::new(kind, detail)`)
                        if seu[0] == 'agg' and path_matches(P._agg_rv(seu)['adt'], 'ServerError'):
                            kinds = P.root(P._field(se, 'kind'))
                            ok_msg = bool(kinds) and all(k[0] == 'agg' and P._agg_rv(k)['variant'] == 'WouldBlock' for k, _ in kinds)
            ok = ok_id and ok_msg
            det = 'id: %s; message ok: %s' % ([P.describe(r) + str(list(norm_path(p))) for r, p in idr], ok_msg)
        R.ob('C12.content', ('MaxRequests::poll_next', 'reply names the refused request and says throttled'), ok,
             'the reply is Response{request_id: <id of the request just read>, message: Err(ServerError{kind: WouldBlock, ..})}', [g_.loc(t)], det)
