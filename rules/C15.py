"""C15 Shipped transports deliver messages intact — schema-agreement clauses only (E-TAB, E-PROV, E-Q)."""
from engine.facts import CannotDecide, callee_is, path_matches, strip_generics
from engine import tab
from .common import guarded_by_variant, result_of, norm_path

EXTRA_CONFIGS = ('serde-transport',)   # feature configurations re-analysed in the thorough tier
META = {
    'level': 'other',
    'technique': 'static table extraction from MIR switch arms (writer vs reader), serde call-type agreement, derive-visitor inspection, forwarder provenance',
    'text': 'Decides only the schema-agreement clauses of this property, which are visible in tarpc\'s own code: the io::ErrorKind writer and reader tables (extracted as finite functions '
            'from their MIR switch arms; the writer switches on raw std discriminants) are mutually inverse on the 18 portable kinds, both default to Other, and call serde at the same '
            'integer type (defect D1, fixed); the 128-bit id writer/reader use the same byte order and width; optional fields (cancel trace context, deadline) have defaults in the generated '
            'visitors; every wire type derives both directions; the in-memory channels and the serde transport forward exactly the item they are given and the inner stream\'s items unchanged, '
            'the channel constructors cross-wire the two endpoints, and poll_ready / poll_flush / poll_close of the wrapping transports perform the same-named operation of the sink they wrap (closing really closes); a hand-written decoder of a trace-context type returns exactly what was decoded (C15.exact). NOT decided (not applicable to static analysis of tarpc): framing under fragmentation, ordering, end-of-stream, '
            'codec round-trips of bodies — these live in tokio-util, tokio-serde, serde_json and bincode over runtime byte strings.',
    'note': 'Trusted: serde, tokio-serde, tokio-util codec, bincode/serde_json, tokio and futures mpsc channels (FIFO, no loss).',
}

WIRE_TYPES = ['ClientMessage', 'Request', 'Response', 'ServerError', 'context::Context', 'trace::Context', 'trace::TraceId', 'trace::SpanId', 'trace::SamplingDecision']


def derived_fns(F, trait_frag, self_suffix):
    roots = [f for f in F.fns.values() if f.impl_of and trait_frag in (f.impl_of.get('trait') or '') and F.is_derived(f)
             and f.impl_of.get('self_head') and path_matches(f.impl_of['self_head'], self_suffix)]
    if len(roots) != 1:
        raise CannotDecide('derived %s for %s: %d' % (trait_frag, self_suffix, len(roots)))
    return roots[0], [f for f in F.fns.values() if f.id.startswith(roots[0].id)]


def custom_fns(F, root, fns):
    out = {}
    for f in fns:
        for _, t in f.calls():
            c = F.callee_fn(t)
            if c is not None and not c.id.startswith(root.id) and not F.is_derived(c) and c.kind == 'Fn':
                out[c.id] = c
    return list(out.values())


def run(ctx):
    F, P, R = ctx.F, ctx.P, ctx.run
    R.explanation = META['text']
    R.rule_text = 'one obligation per (table entry class / wire type / forwarder method, clause)'
    R.assumptions = ['external codecs and framing are correct (not analysed)']
    R.info['configs'] = ['full']

    # ------------------------------------------------------------------ error-kind tables
    sroot, sfns = derived_fns(F, 'Serialize', 'ServerError')
    droot, dfns = derived_fns(F, 'Deserialize', 'ServerError')
    writers = custom_fns(F, sroot, sfns)
    readers = custom_fns(F, droot, dfns)
    if len(writers) != 1 or len(readers) != 1:
        raise CannotDecide('error-kind writer/reader: %d/%d' % (len(writers), len(readers)))
    w, r = writers[0], readers[0]
    ek = F.enums.get('std::io::ErrorKind')
    if not ek:
        raise CannotDecide('std::io::ErrorKind discriminant table missing from facts')
    discr_name = {int(v[2]): v[0] for v in ek}
    # the table may sit in the serde hook itself or in a private pure function it calls
    def table_fn(hook):
        if tab.find_switches(hook):
            return hook
        refs = {F.callee_fn(t).id: F.callee_fn(t) for _, t in hook.calls() if F.callee_fn(t) is not None}
        for _, t in hook.calls():     # a function handed over by value: `.map(io_error_kind_from_u32)`
            for a in t['args']:
                if a.get('k') == 'const' and a.get('fn_id') in F.fns:
                    refs[a['fn_id']] = F.fns[a['fn_id']]
        for c in F.with_descendants(hook):     # or in a closure of the hook: `u32::deserialize(d).map(|wire| match wire { .. })`
            if c.id != hook.id:
                refs[c.id] = c
        cands = [c for c in refs.values() if tab.find_switches(c)]
        return cands[0] if len(cands) == 1 else hook
    w_hook, r_hook = w, r
    w, r = table_fn(w_hook), table_fn(r_hook)
    ws = tab.find_switches(w)
    rs = tab.find_switches(r)
    if len(ws) != 1 or len(rs) != 1:
        raise CannotDecide('writer/reader switch: %d/%d' % (len(ws), len(rs)))
    wt, wdef = tab.switch_table(w, ws[0])
    rt, rdef = tab.switch_table(r, rs[0])
    # the writer switches on the discriminant of its kind parameter
    wmap = {}
    ok_shape = True
    for d, a in wt.items():
        if a is None or a[0] != 'int' or d not in discr_name:
            ok_shape = False
            continue
        wmap[discr_name[d]] = a[1]
    rmap = {}
    for c, a in rt.items():
        if a is None or a[0] != 'variant' or not a[1].endswith('io::ErrorKind'):
            ok_shape = False
            continue
        rmap[c] = a[2]
    R.ob('C15.kind', ('error-kind tables', 'extracted'), ok_shape and len(wmap) >= 18 and len(rmap) >= 18,
         'both tables are constant match arms over the 18 portable kinds', [w.loc(w.d), r.loc(r.d)], 'writer %d arms, reader %d arms' % (len(wmap), len(rmap)))
    bad = []
    for name, code in sorted(wmap.items()):
        back = rmap.get(code, rdef[2] if rdef and rdef[0] == 'variant' else None)
        okk = back == name
        R.ob('C15.kind', ('error-kind round trip', name), okk, 'kind %s is written as %d and %d is read back as %s' % (name, code, code, back), [w.loc(w.d), r.loc(r.d)])
    codes = sorted(wmap.values())
    R.ob('C15.kind', ('error-kind tables', 'writer injective'), len(set(codes)) == len(codes), 'no two portable kinds share a code', [w.loc(w.d)])
    other_code = wmap.get('Other')
    R.ob('C15.kind', ('error-kind tables', 'defaults'), wdef is not None and wdef[0] == 'int' and wdef[1] == other_code and rdef is not None and rdef[0] == 'variant' and rdef[2] == 'Other',
         'unknown kinds are written as Other\'s code and unknown codes are read as Other', [w.loc(w.d), r.loc(r.d)])
    # the value serialised is the table result; the value switched on is the decoded integer
    wser = [(bb, t) for bb, t in w_hook.calls() if callee_is(t, 'Serialize::serialize', 'Serializer::serialize_u8', 'Serializer::serialize_u16', 'Serializer::serialize_u32', 'Serializer::serialize_u64')]
    rde = [(bb, t) for bb, t in r_hook.calls() if callee_is(t, 'Deserialize::deserialize')]
    ok = len(wser) == 1 and len(rde) == 1
    wty = None
    if wser:
        cn_ = strip_generics(wser[0][1]['callee']).split('::')[-1]
        wty = cn_.split('_')[-1] if cn_.startswith('serialize_u') else wser[0][1].get('self_ty')
    rty = rde[0][1].get('self_ty') if rde else None
    R.ob('C15.kind', ('error-kind tables', 'same serde type'), ok and wty == rty and wty in ('u32', 'u8', 'u16', 'u64'),
         'the writer serialises and the reader deserialises the code at the same unsigned integer type', [w.loc(w.d), r.loc(r.d)], 'writer: %s, reader: %s' % (wty, rty))
    if ok:
        res_local = [a[3] for a in wt.values() if a]
        # the value argument of the serialize call (Serialize::serialize(&v, s) / s.serialize_u32(v))
        varg = wser[0][1]['args'][0] if callee_is(wser[0][1], 'Serialize::serialize') else wser[0][1]['args'][1]
        rr = P.root(P.operand(w_hook, varg, at=wser[0][0]))
        okw = bool(rr) and all(P.unbound(x)[0] == 'const' for x, _ in rr)
        R.ob('C15.kind', ('error-kind writer', 'serialises the table result'), okw and len(set(res_local)) == 1, 'the integer written is the arm result (no arithmetic on it)', [w_hook.loc(wser[0][1])])
        sw = r.blocks[rs[0]]['term']['discr']
        sr = P.root(P.operand(r, sw, at=rs[0])) if r.id == r_hook.id else P.root(P.operand(r, sw, at=rs[0]), through_params=True, callers={x.id for x in F.with_descendants(r_hook)})
        okr = bool(sr) and all(P.is_call(x, 'Deserialize::deserialize') for x, _ in sr)
        if not okr and r.id != r_hook.id and sr and all(x == ('param', r.id, 1) for x, _ in sr):
            # the table function is handed by value to `Result::map` on the decoded integer
            for bb_, t_ in r_hook.calls():
                if callee_is(t_, 'Result::map', 'Option::map') and any(a.get('k') == 'const' and a.get('fn_id') == r.id for a in t_['args'][1:]):
                    rv_ = P.root(P.operand(r_hook, t_['args'][0], at=bb_))
                    okr = bool(rv_) and all(P.is_call(x, 'Deserialize::deserialize') for x, _ in rv_)
        R.ob('C15.kind', ('error-kind reader', 'switches on the decoded integer'), okr, 'the integer matched is the decoded value (no arithmetic on it)', [r.loc(r.d)])
        d0 = w.blocks[ws[0]]['term']['discr']
        dr = P.operand(w, d0, at=ws[0])
        drr = P.root(dr[1]) if w.id == w_hook.id else P.root(dr[1], through_params=True, callers={w_hook.id})
        okd = dr[0] == 'discr' and bool(drr) and all(x == ('param', w_hook.id, 1) for x, _ in drr)
        R.ob('C15.kind', ('error-kind writer', 'switches on its kind parameter'), okd, 'the writer matches on the kind it was given', [w.loc(w.d)])

    # ------------------------------------------------------------------ 128-bit ids
    sroot, sfns = derived_fns(F, 'Serialize', 'trace::TraceId')
    droot, dfns = derived_fns(F, 'Deserialize', 'trace::TraceId')
    iw = custom_fns(F, sroot, sfns)
    ir = custom_fns(F, droot, dfns)
    if len(iw) != 1 or len(ir) != 1:
        raise CannotDecide('128-bit id writer/reader: %d/%d' % (len(iw), len(ir)))
    iw, ir = iw[0], ir[0]
    to_b = [strip_generics(t['callee']).split('::')[-1] for _, t in iw.calls() if t.get('callee') and '_bytes' in t['callee']]
    from_b = [strip_generics(t['callee']).split('::')[-1] for _, t in ir.calls() if t.get('callee') and '_bytes' in t['callee']]
    ok = len(to_b) == 1 and len(from_b) == 1 and to_b[0].startswith('to_') and from_b[0].startswith('from_') and to_b[0][3:] == from_b[0][5:] and to_b[0][3:] in ('le_bytes', 'be_bytes')
    R.ob('C15.id', ('128-bit id', 'same byte order'), ok, 'trace ids are written and read with the same fixed byte order', [iw.loc(iw.d), ir.loc(ir.d)], '%s / %s' % (to_b, from_b))
    st = [t.get('self_ty') for _, t in iw.calls() if callee_is(t, 'Serialize::serialize')]
    dt = [t.get('self_ty') for _, t in ir.calls() if callee_is(t, 'Deserialize::deserialize')]
    R.ob('C15.id', ('128-bit id', 'same serde type'), len(st) == 1 and st == dt and st[0] == '[u8; 16]', 'both directions use a 16-byte array', [iw.loc(iw.d), ir.loc(ir.d)], '%s / %s' % (st, dt))
    # value flow: written bytes are those of the id; read id is built from the decoded bytes
    for bb, t in iw.calls():
        if callee_is(t, 'Serialize::serialize'):
            rr = P.root(P.operand(iw, t['args'][0], at=bb))
            ok = bool(rr) and all(P.is_call(x, 'to_le_bytes', 'to_be_bytes') and all(y == ('param', iw.id, 1) for y, _ in P.root(P.args_of(x)[0])) for x, _ in rr)
            R.ob('C15.id', ('128-bit id writer', 'writes the id\'s bytes'), ok, 'the bytes serialised are the bytes of the id given', [iw.loc(t)])
    ret = P.root(P._field(P._variant(P._local_whole(ir, 0), 'Ok'), 0, 0))
    ok = False
    for x, p in ret:
        if P.is_call(x, 'from_le_bytes', 'from_be_bytes'):
            ar = P.root(P.args_of(x)[0])
            ok = bool(ar) and all(P.is_call(y, 'Deserialize::deserialize') for y, _ in ar)
    R.ob('C15.id', ('128-bit id reader', 'builds the id from the decoded bytes'), ok, 'the id returned is from_*_bytes of the decoded array', [ir.loc(ir.d)])

    # ------------------------------------------------------------------ optional fields and both directions
    droot, dfns = derived_fns(F, 'Deserialize', 'ClientMessage')
    mf = [(f, t) for f in dfns for _, t in f.calls() if callee_is(t, 'missing_field')]
    bad = [(f, t) for f, t in mf if any(a.get('k') == 'const' and 'trace_context' in a.get('v', '') for a in t['args'])]
    defaults = [(f, t) for f in dfns for _, t in f.calls() if callee_is(t, 'Default::default') and 'trace::Context' in (t.get('self_ty') or '')]
    R.ob('C15.optional', ('ClientMessage::Cancel', 'trace context optional'), not bad and len(defaults) >= 1,
         'a cancellation that omits its trace context is understood (Default::default, never missing_field)', [f.loc(t) for f, t in bad] or [f.loc(t) for f, t in defaults][:2])
    for wt_ in WIRE_TYPES:
        s_ok = any(im['from_expansion'] or True for im in F.trait_impls('Serialize', wt_))
        d_ok = bool(F.trait_impls('Deserialize', wt_))
        R.ob('C15.optional', ('wire type', wt_, 'both directions'), bool(F.trait_impls('Serialize', wt_)) and d_ok,
             '%s implements both Serialize and Deserialize' % wt_, [])

    # ------------------------------------------------------------------ ids and trace contexts are decoded exactly
    # The types of the trace context either derive Deserialize (their `with =` helper is judged by C15.id) or, if written by hand, build the value they return from
    # what the deserializer produced and nothing else: no fresh id, constant or default is substituted for any decoded value (zero and all-ones ids included).
    n_tr = 0
    for im in F.trait_impls('Deserialize'):
        sh_ = im.get('self_head') or ''
        if not (sh_.startswith('trace::') or '::trace::' in sh_) or '::_::' in sh_ or sh_.split('::')[-1].startswith('__'):
            continue
        for name_, mid in im['methods']:
            f_ = F.fns.get(mid)
            if f_ is None or name_ != 'deserialize':
                continue
            n_tr += 1
            if F.is_derived(f_):
                continue
            bad_, seen_ = [], set()

            def leafs(term, depth=0):
                for r_, p_ in P.root(term):
                    ru_ = P.unbound(r_)
                    if ru_ in seen_ or depth > 6:
                        continue
                    if ru_[0] == 'agg' and P._agg_rv(ru_)['adt'] not in ('closure', 'coroutine'):
                        seen_.add(ru_)
                        rv_ = P._agg_rv(ru_)
                        for k_ in range(len(rv_.get('ops') or [])):
                            leafs(P._field(r_, rv_['fields'][k_] if rv_.get('fields') else k_, k_), depth + 1)
                        continue
                    if ru_[0] == 'call' and (callee_is(P.call_term(ru_), 'Deserialize::deserialize') or any(x_ in (P.call_term(ru_).get('callee') or '') for x_ in ('serde::de', 'Deserializer::deserialize', 'SeqAccess::next_element', 'MapAccess::next_value'))):
                        continue
                    bad_.append(P.describe(r_))
            leafs(P._field(P._variant(P._local_whole(f_, 0), 'Ok'), 0, 0))
            R.ob('C15.exact', (sh_.split('::')[-1], 'hand-written decoder returns exactly what was decoded'), not bad_,
                 'a hand-written Deserialize of a trace-context type builds its result only from the deserializer\'s output: no value (not even zero) is replaced by a fresh or constant one', [f_.loc(f_.d)],
                 'other sources: %s' % sorted(set(bad_))[:4])
    if n_tr < 3:
        raise CannotDecide('Deserialize impls of trace-context types found: %d (floor 3)' % n_tr)

    # ------------------------------------------------------------------ every wire type always writes all its fields
    # positional codecs (bincode) have no field names on the wire: a writer that leaves a field out (skip_serializing_if) produces bytes the reader of
    # the same type mis-aligns.  The derived serializers must announce a constant field count and never call skip_field.
    n_ser = 0
    for im in F.trait_impls('Serialize'):
        for name_, mid in im['methods']:
            f_ = F.fns.get(mid)
            if f_ is None or name_ != 'serialize':
                continue
            who = (im['self_head'] or '?').split('::')[-1]
            bodies_ = F.with_descendants(f_)
            skips = [(g, t) for g in bodies_ for _, t in g.calls() if strip_generics(t.get('callee') or '').endswith('::skip_field')]
            lens = []
            for g in bodies_:
                for bb, t in g.calls():
                    c = strip_generics(t.get('callee') or '')
                    if c.endswith(('Serializer::serialize_struct', 'Serializer::serialize_struct_variant', 'Serializer::serialize_tuple_struct', 'Serializer::serialize_tuple_variant')):
                        lens.append((g, t, P.fold_int(P.operand(g, t['args'][-1], at=bb))))
            if not lens and not skips:
                continue
            n_ser += 1
            R.ob('C15.fields', (im['self_head'] or '?', 'writes a constant number of fields'), not skips and all(v is not None for _, _, v in lens),
                 'the serializer of %s announces a compile-time constant number of fields and never skips one, so positional codecs stay aligned with the reader' % who,
                 [g.loc(t) for g, t in skips] or [g.loc(t) for g, t, _ in lens], 'field counts: %s; skip_field calls: %d' % ([v for _, _, v in lens], len(skips)))
    if n_ser < 5:
        raise CannotDecide('derived struct serializers of wire types: %d (floor 5)' % n_ser)

    # ------------------------------------------------------------------ connections are framed with the configuration in force when they are made
    # (both ends must frame alike: a listener or connector that frames with a snapshot of its Builder taken earlier ignores what `config_mut()` set)
    from .common import deep_bodies
    n_cfg = 0
    for pth, a_ in F.adts.items():
        if not pth.startswith('serde_transport') or a_['kind'] != 'Struct' or '::_::' in pth:
            continue     # ('::_::' = structs generated by pin-project)
        flds = a_['variants'][0]['fields']
        bf = [x[0] for x in flds if x[1].endswith('length_delimited::Builder')]
        if len(bf) != 1:
            continue
        n_cfg += 1
        snap = [x[0] for x in flds if 'LengthDelimitedCodec' in x[1]]
        R.ob('C15.framing', (pth.split('serde_transport::')[-1], 'no cached framing codec'), not snap,
             'the connector / listener keeps only the framing configuration (Builder); the codec of each connection is built from it when the connection is made', [], 'snapshot fields: %s' % snap)
        meths = [f for f in F.fns.values() if f.impl_of and f.impl_of.get('self_head') == pth and not F.is_derived(f)]
        sites = []
        for m in meths:
            for g in deep_bodies(F, m):
                for bb, t in g.calls():
                    if callee_is(t, 'Builder::new_framed', 'Builder::new_codec', 'Builder::new_read', 'Builder::new_write'):
                        rs = P.root(P.operand(g, t['args'][0], at=bb), through_params=True, callers={x.id for x in deep_bodies(F, m)})
                        ok_ = bool(rs) and all(r[0] == 'param' and bf[0] in P.fpath(p_) for r, p_ in rs)
                        sites.append((g.loc(t), ok_))
                    elif callee_is(t, 'codec::Framed::new', 'tokio_util::codec::Framed::new', 'FramedRead::new', 'FramedWrite::new') and len(t['args']) > 1:
                        rs = P.root(P.operand(g, t['args'][1], at=bb), through_params=True, callers={x.id for x in deep_bodies(F, m)})
                        ok_ = bool(rs) and all(P.is_call(r, 'Builder::new_codec') and all(r2[0] == 'param' and bf[0] in P.fpath(p2) for r2, p2 in P.root(P.args_of(r)[0], through_params=True)) for r, p_ in rs)
                        sites.append((g.loc(t), ok_))
        R.ob('C15.framing', (pth.split('serde_transport::')[-1], 'framed with the current configuration'), bool(sites) and all(o for _, o in sites),
             'every connection is framed by the Builder stored in the `%s` field, read when the connection is made' % bf[0], [l for l, _ in sites] or [], '%d construction sites' % len(sites))
    if n_cfg < 2:
        raise CannotDecide('serde transport connectors / listeners with a framing configuration: %d (floor 2)' % n_cfg)

    # ------------------------------------------------------------------ forwarders
    transports = [('transport::channel::UnboundedChannel', ('UnboundedSender::send',), ('UnboundedReceiver::poll_recv',)),
                  ('transport::channel::Channel', ('Sink::start_send', 'mpsc::Sender::start_send'), ('Stream::poll_next',)),
                  ('serde_transport::Transport', ('Sink::start_send',), ('Stream::poll_next',))]
    n_fw = 0
    for ty, send_names, recv_names in transports:
        ss = F.trait_method('Sink', ty, 'start_send')
        sends = [(bb, t) for bb, t in ss.calls() if callee_is(t, *send_names)]
        ok = len(sends) == 1
        det = ''
        if ok:
            bb, t = sends[0]
            callterm = ('call', ss.id, bb)
            ir_ = P.root(P.operand(ss, t['args'][1], at=bb))
            ok = bool(ir_) and all(x == ('param', ss.id, 2) and not norm_path(p) for x, p in ir_)
            recv = P.root(P.operand(ss, t['args'][0], at=bb))
            ok = ok and all(x == ('param', ss.id, 1) for x, _ in recv)
            # the inner call's outcome is the outcome reported: the result is the call's (possibly map_err'd) result / `?` propagates it, or it is rebuilt
            # arm by arm (Ok only on the call's Ok edge, an Err built on its Err edge)
            from .common import deep_roots
            rr = deep_roots(P, P._local_whole(ss, 0))
            direct = any(P.unbound(x) == callterm for x, _ in rr)
            pred = lambda x: result_of(P, x, callterm, through=('Result::map_err',))
            oks = [i for i, j, s_ in ss.aggregates('std::result::Result', 'Ok')]
            errs = [i for i, j, s_ in ss.aggregates('std::result::Result', 'Err')]
            rebuilt = bool(errs) and all(guarded_by_variant(F, P, ss, i, pred, ['Err', 'Break']) for i in errs) and all(guarded_by_variant(F, P, ss, i, pred, ['Ok', 'Continue']) for i in oks)
            ok = ok and (direct or rebuilt) and all(guarded_by_variant(F, P, ss, i, pred, ['Ok', 'Continue']) for i in oks)
            det = 'direct: %s, rebuilt per arm: %s' % (direct, rebuilt)
        R.ob('C15.forward', (ty, 'start_send forwards its item'), ok, 'the item given to start_send is handed unchanged, exactly once, to the inner sender and a failure of that call is returned', [ss.loc(ss.d)], det)
        n_fw += 1
        pn = F.trait_method('Stream', ty, 'poll_next')
        polls = [(bb, t) for bb, t in pn.calls() if callee_is(t, *recv_names)]
        ok = len(polls) == 1
        det = ''
        if ok:
            bb, t = polls[0]
            inner = ('call', pn.id, bb)
            ret = P._local_whole(pn, 0)
            # (a) every item handed out is the inner stream's item, unchanged
            item = P._field(P._variant(P._field(P._variant(P._field(P._variant(ret, 'Ready'), 0), 'Some'), 0), 'Ok'), 0)
            irs = P.root(item)
            item_path = (('v', 'Ready'), ('f', 0), ('v', 'Some'), ('f', 0))
            good_item = bool(irs) and all(P.unbound(x) == inner and norm_path(p) in (item_path, item_path + (('v', 'Ok'), ('f', 0))) for x, p in irs)
            # (b) end-of-stream and Pending are reported only when the inner stream reported them: aggregates building them sit on the matching edge
            pred = lambda x: result_of(P, x, inner)
            pred_payload = lambda x: any(P.unbound(q) == inner for q, _ in P.root(x, inline=False))
            bad_sites = []
            for i, j, s_ in pn.stmts():
                rv = s_['rv']
                if rv['k'] != 'agg' or s_.get('expn'):
                    continue
                if rv.get('variant') == 'Pending' and not guarded_by_variant(F, P, pn, i, pred, ['Pending']):
                    bad_sites.append(pn.loc(s_) + ' (Pending)')
                if rv.get('variant') == 'None' and 'Option' in (rv.get('adt') or '') and not guarded_by_variant(F, P, pn, i, pred_payload, ['None']):
                    bad_sites.append(pn.loc(s_) + ' (None)')
            ok = good_item and not bad_sites
            det = 'item sources: %s; unguarded Pending/None: %s' % ([P.describe(x) + str(list(norm_path(p))) for x, p in irs], bad_sites)
        R.ob('C15.forward', (ty, 'poll_next forwards inner items'), ok, 'poll_next returns the inner stream\'s items unchanged and in order (only errors are mapped)', [pn.loc(pn.d)], det)
        n_fw += 1
    # constructors cross-wire the endpoints
    for ctor, ty in (('transport::channel::unbounded', 'UnboundedChannel'), ('transport::channel::bounded', 'transport::channel::Channel')):
        c = F.free_fn(ctor)
        # read off the returned pair: (A, B), each with a sending half `tx` and a receiving half `rx` (however the endpoints are put together)
        ret = P._local_whole(c, 0)
        ends, ok, det = [], True, ''
        for k in (0, 1):
            end = P._field(ret, k, k)
            tx = P.root(P._field(end, 'tx'))
            rx = P.root(P._field(end, 'rx'))
            if len(tx) != 1 or len(rx) != 1:
                ok = False
                det = 'endpoint %d: %d tx sources, %d rx sources' % (k, len(tx), len(rx))
                break
            ends.append(((P.unbound(tx[0][0]), norm_path(tx[0][1])), (P.unbound(rx[0][0]), norm_path(rx[0][1]))))
        if ok:
            (t1, r1), (t2, r2) = ends
            # each channel(..) call returns (sender, receiver): A sends into the channel B receives from, and vice versa
            same_chan = lambda tx_, rx_: tx_[0] == rx_[0] and tx_[0][0] == 'call' and tx_[1] != rx_[1]
            ok = same_chan(t1, r2) and same_chan(t2, r1) and t1[0] != t2[0]
            det = 'A.tx@%s A.rx@%s B.tx@%s B.rx@%s' % (t1[0][2:], r1[0][2:], t2[0][2:], r2[0][2:])
        R.ob('C15.forward', (ctor, 'endpoints cross-wired'), ok, 'what one endpoint sends is what the other receives (tx/rx pairs crossed), and no endpoint talks to itself', [c.loc(c.d)], det)
    from .common import sink_delegation
    n_del = sink_delegation(ctx, 'C15.delegate', ['serde_transport::Transport', 'transport::channel::Channel'])
    if n_del < 6:
        raise CannotDecide('sink delegation sites: %d (floor 6)' % n_del)
    R.count('forwarders_checked', n_fw + n_del)
