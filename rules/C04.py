"""C04 Servers stop cancelled work and cancellation cascades — E-Q / E-PROV / E-CFG (+ E-SHAPE source coverage)."""
from engine.facts import CannotDecide, callee_is, path_matches
from engine import cfg
from .common import MAP_REMOVALS, reachable_local_fns, norm_path, guarded_by_variant, result_of
from .server_common import Server

EXTRA_CONFIGS = ('default', 'tokio1', 'serde1', 'serde-transport')   # feature configurations re-analysed in the thorough tier
META = {
    'level': 'other',
    'technique': 'static provenance / who-may-call / dominator rules over MIR of the server channel, the in-flight table and InFlightRequest::execute; shape walker for source coverage',
    'text': 'Decides on every path: a Cancel message read from the transport is routed to the aborting removal keyed by the decoded id; that removal aborts the removed entry\'s handle and '
            'drops its timer on a hit and does nothing on a miss; the handler AND the response send live inside one Abortable whose registration is the pair-mate of the handle stored under '
            'the request\'s id; the channel writes a response to the transport only on the hit edge of the removal keyed by the response\'s id (so nothing is sent for cancelled requests); '
            'abort is called only by the table. Cascade follows from Rust drop semantics plus C03 (an aborted handler drops its nested call guards); the client-side link of the cascade is decided here too: a cancellation id taken from the queue whose entry was removed is written in the same activation (C04.owed), and a written Cancel is flushed (C04.cascade). Known finding D5: with a request '
            'limiter at its limit and a sink that is not ready, cancel processing is delayed.',
    'note': 'Trusted: futures Abortable never polls its inner future again after abort; Rust drop semantics. Chains of depth 2-3 are covered by composition with C03, not by analysing a composed program.',
}


from .coverage import coverage


def run(ctx):
    F, P, R = ctx.F, ctx.P, ctx.run
    R.explanation = META['text']
    R.rule_text = 'one obligation per (entry point / table method, clause)'
    R.assumptions = ['Abortable stops polling after abort', 'Rust drops an aborted future\'s locals']
    R.info['configs'] = ['full']
    S = Server(F, P)
    T = S.table
    reach = reachable_local_fns(F, S.poll_next)
    R.count('functions_analysed', len(reach) + len(T.methods) + 3)

    # (1) Cancel arm -> a table removal keyed by the decoded id
    R.ob('C04.cancel', ('<BaseChannel as Stream>::poll_next', 'routes cancellations to a table removal'), S.aborting is not None and len(S.cancel_sites) == 1,
         'the server channel hands the id of a Cancel message read from the transport to one removal of the in-flight table',
         [g.loc(t) for g, _, t, _ in S.cancel_sites] or [S.poll_next.loc(S.poll_next.d)])
    if S.aborting is None:
        return
    kp = S.key_param(S.aborting)
    for g, bb, t, m_ in S.cancel_sites:
        rs = P.root(P.operand(g, t['args'][kp - 1], at=bb), through_params=True, callers={x.id for x in reachable_local_fns(F, S.poll_next)})
        ok = bool(rs) and all(S.is_transport_item(r) and ('v', 'Cancel') in p and P.fpath(p)[-1:] == ('request_id',) for r, p in rs)
        R.ob('C04.cancel', ('<BaseChannel as Stream>::poll_next', 'cancels the id named by the peer'), ok,
             'the id removed is the request_id of the Cancel message just read from the transport', [g.loc(t)], str([P.describe(r) + str(list(norm_path(p))) for r, p in rs]))
    R.ob('C04.cancel', ('cancel removal', 'distinct from the response removal'), S.aborting.id != S.plain.id,
         'cancellation does not go through the removal used for answered requests (which does not abort)', [S.aborting.loc(S.aborting.d)])

    # (2) aborting removal: hit -> abort + timer removal of that entry; miss -> nothing
    m = S.aborting
    key_field = T.data_field('delay_queue::Key')
    abort_field = T.data_field('AbortHandle')
    rm = lambda x: any(P.is_call(r, *MAP_REMOVALS) for r, _ in P.root(x))
    n_ab = n_tm = 0
    from .common import own_sites
    ctx_m = {b_.id for b_ in T.bodies(m)}
    for g in T.bodies(m):
        for bb, t in g.calls():
            if callee_is(t, 'AbortHandle::abort'):
                n_ab += 1
                rs = P.root(P.operand(g, t['args'][0], at=bb), through_params=T.is_helper, callers=ctx_m)
                ok = bool(rs) and all(P.is_call(r, *MAP_REMOVALS) and abort_field in P.fpath(p) for r, p in rs)
                R.ob('C04.abort', ('server table aborting removal', 'aborts the removed entry'), ok, 'the handle aborted is the one stored in the entry removed for the id', [g.loc(t)])
            if callee_is(t, 'DelayQueue::remove'):
                n_tm += 1
                rs = P.root(P.operand(g, t['args'][1], at=bb), through_params=T.is_helper, callers=ctx_m)
                ok = bool(rs) and all(P.is_call(r, *MAP_REMOVALS) and key_field in P.fpath(p) for r, p in rs)
                R.ob('C04.abort', ('server table aborting removal', 'drops the removed entry\'s timer'), ok, 'the timer removed is the one armed for that entry', [g.loc(t)])
            if callee_is(t, 'AbortHandle::abort', 'DelayQueue::remove', 'DelayQueue::clear', 'HashMap::insert', 'HashMap::clear', 'util::Compact::compact'):
                sites_ = own_sites(F, T, m, g, bb)     # an effect inside a helper is judged where the aborting removal calls that helper
                R.ob('C04.abort', ('server table aborting removal', 'miss has no effect', t['callee'].split('::')[-1]), bool(guarded_by_variant(F, P, g, bb, rm, ['Some', 'Continue'])) or (bool(sites_) and all(guarded_by_variant(F, P, g2, b2, rm, ['Some', 'Continue']) for g2, b2 in sites_)),
                     'every effect of the aborting removal is on the hit edge; cancelling an unknown or finished id does nothing', [g.loc(t)])
    # any other mutation of the table's own state (a call taking &mut of a field of self) is on the hit edge as well
    for g in T.bodies(m):
        for bb, t in g.calls():
            at = (t.get('arg_tys') or [''])[0]
            if not at.startswith('&mut') or callee_is(t, 'HashMap::remove', 'HashMap::remove_entry') or t.get('expn'):
                continue
            rs = P.root(P.operand(g, t['args'][0], at=bb))
            if rs and all(r[0] == 'param' and r[1] == m.id and r[2] == 1 and P.fpath(p) for r, p in rs):
                R.ob('C04.abort', ('server table aborting removal', 'state change only on hit', (t.get('callee') or '?').split('::')[-1] + ' on self.' + '.'.join(P.fpath(rs[0][1]))),
                     bool(guarded_by_variant(F, P, g, bb, rm, ['Some', 'Continue'])), 'cancelling an unknown or finished id leaves the table\'s state untouched', [g.loc(t)])
    R.ob('C04.abort', ('server table aborting removal', 'abort and timer removal present'), n_ab == 1 and n_tm == 1,
         'a cancelled request is aborted and stops counting (entry and timer gone)', [m.loc(m.d)], 'abort=%d timer=%d' % (n_ab, n_tm))

    # (3) Abortable wraps handler + response send; registration is the pair-mate of the stored handle
    ex = S.execute
    from .common import deep_bodies, future_bodies
    exb = deep_bodies(F, ex)
    ab = [(g, bb, t) for g in exb for bb, t in g.calls() if callee_is(t, 'Abortable::new')]
    R.ob('C04.abortable', ('InFlightRequest::execute', 'one Abortable'), len(ab) == 1, 'execute wraps its work in one Abortable', [g.loc(t) for g, _, t in ab] or [ex.loc(ex.d)])
    for g, bb, t in ab:
        fb = future_bodies(F, P, g, t['args'][0], bb)    # an async block, or a call to a local async fn
        ok = len(fb) == 1
        body = fb[0] if ok else None
        has_serve = has_send = False
        if body is not None:
            bs = deep_bodies(F, body)
            has_serve = any(callee_is(t2, 'server::Serve::serve') for x in bs for _, t2 in x.calls())
            has_send = any(callee_is(t2, 'mpsc::Sender::send') for x in bs for _, t2 in x.calls())
        R.ob('C04.abortable', ('InFlightRequest::execute', 'handler and response send inside the Abortable'), ok and has_serve and has_send,
             'both the handler invocation and the hand-off of its response are inside the abortable future, so an abort stops both', [g.loc(t)])
        inside_ids = {x.id for x in deep_bodies(F, body)} if body is not None else set()
        outside = [(x, t2) for x in exb if x.id not in inside_ids for _, t2 in x.calls() if callee_is(t2, 'server::Serve::serve', 'mpsc::Sender::send')]
        R.ob('C04.abortable', ('InFlightRequest::execute', 'nothing runs outside the Abortable'), not outside,
             'no handler call or response send exists outside the abortable future', [x.loc(t2) for x, t2 in outside] or [g.loc(t)])
        rr = P.root(P.operand(g, t['args'][1], at=bb))
        ok = bool(rr) and all(r == ('param', ex.id, 1) and P.fpath(p) == ('abort_registration',) for r, p in rr)
        R.ob('C04.abortable', ('InFlightRequest::execute', 'uses the request\'s own registration'), ok, 'the Abortable is registered with this request\'s AbortRegistration', [g.loc(t)])
    # pair-mate: table insert creates the pair, stores the handle, returns the registration
    ins = S.insert
    np_ = [(g, bb, t) for g in T.bodies(ins) for bb, t in g.calls() if callee_is(t, 'AbortHandle::new_pair')]
    ok = len(np_) == 1
    if ok:
        g, bb, t = np_[0]
        pair = ('call', g.id, bb)
        st = [(i, j, s) for i, j, s in g.aggregates(T.data_path)]
        ok = len(st) == 1
        if ok:
            hr = P.root(P._field(('agg', g.id, st[0][0], st[0][1]), abort_field))
            ok = bool(hr) and all(r == pair and norm_path(p) == (('f', 0),) for r, p in hr)
        ret = P.root(P._field(P._variant(P._local_whole(ins, 0), 'Ok'), 0, 0))
        ok = ok and bool(ret) and all(P.unbound(r) == pair and norm_path(p)[-1:] == (('f', 1),) for r, p in ret)
    R.ob('C04.abortable', ('server table insert', 'handle stored, pair-mate registration returned'), ok,
         'registering a request creates one abort pair: the handle is stored under the id, the registration is returned', [ins.loc(ins.d)])
    reg = S.register
    for i, j, s in reg.aggregates('server::TrackedRequest'):
        agg = ('agg', reg.id, i, j)
        rr = P.root(P._field(agg, 'abort_registration'))
        idr = P.root(P._field(P._field(agg, 'request'), 'id'))
        kp2 = S.key_param(ins)
        ok = bool(rr)
        same = bool(rr)
        for r, p in rr:
            # the registration is the second half of the pair created inside the table insert, inlined with this call's arguments
            ins_bodies = {b_.id for b_ in T.bodies(ins)}
            if not (r[0] == 'bound' and r[2] in ins_bodies and P.is_call(r, 'AbortHandle::new_pair') and norm_path(p)[-1:] == (('f', 1),)):
                ok = False
                continue
            # among the arguments the pair's creation was inlined with, one is this request's id (the key it is stored under)
            idset = {P.unbound(x) for x, _ in idr}
            if not any({P.unbound(x) for x, _ in P.root(a_)} == idset and all(P.fpath(q)[-1:] == ('id',) for _, q in P.root(a_)) and P.root(a_) for a_ in r[3]):
                same = False
        R.ob('C04.abortable', ('BaseChannel request registration', 'tracked request carries the registration made for its id'), ok and same,
             'the registration handed out with a request is the one created when that request\'s id was stored', [reg.loc(s)])
    # pump_read passes the registration through
    for g, i, j, s in F.all_aggregates('server::InFlightRequest'):
        rr = P.root(P._field(('agg', g.id, i, j), 'abort_registration'), through_params=True)
        rq = P.root(P._field(('agg', g.id, i, j), 'request'), through_params=True)
        ok = bool(rr) and {r for r, _ in rr} == {r for r, _ in rq} and all(P.fpath(p)[-1:] == ('abort_registration',) for _, p in rr)
        R.ob('C04.abortable', ('Requests stream', 'registration stays with its request'), ok, 'an InFlightRequest holds the registration of the tracked request it wraps', [g.loc(s)])

    # (4) responses only for tracked ids
    from .server_common import tracked_gate
    tracked_gate(ctx, 'C04.tracked', S)
    # source coverage while blocked (E-SHAPE): known finding D5 for limiter chains
    coverage(ctx, 'C04.cover', ('K', 'T', 'R'))
    # cascade: a Cancel written by an aborted handler's client is flushed before that dispatch goes idle (C14.flush on the client)
    from .C14 import judge
    from .shape_common import find_cell_accessors, run_jobs
    from engine.shape import STAR
    poll = F.trait_method('Future', 'client::RequestDispatch', 'poll')
    acc, fields = find_cell_accessors(F, P, 'client::RequestDispatch', lambda t: t.startswith('std::option::Option<') and 'ChannelError' in t)
    cells = [((sorted(fields)[0], 'None'),), ((sorted(fields)[0], ('Some', STAR)),)] if fields else [()]
    res = run_jobs(F, [{'key': 'client', 'entry': poll.id, 'aut': ('sink',), 'acc': acc, 'cells': cells}])
    judge(ctx, res['client'], poll, 'C04.cascade', 'client dispatch poll (cancel leaves the client)')
    # the cascade needs the Cancel of an abandoned nested call to reach the wire: an id taken from the cancellation queue whose entry was removed is written in the
    # same activation, it is not lost at a Pending early return (the rule of C03.owed, stated here for the client end of every hop)
    from .C03 import owed_rule
    owed_rule(ctx, 'C04.owed', poll)
    # a finished execution never queues its id for clean-up: whether the handler completed or was aborted by a Cancel, the guard is disarmed on every path, so
    # cancelling a request cannot later un-track a different request that reuses its id
    from .server_common import guard_always_disarmed
    guard_always_disarmed(ctx, 'C04.guard', S)
