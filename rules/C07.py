"""C07 Deadlines propagate across hops without stretching — E-PROV / E-Q / derive-visitor inspection."""
from engine.facts import strip_refs, CannotDecide, callee_is, path_matches, strip_generics
from engine.prov import const_int
from engine import cfg
from .common import guarded_by_variant, Table, client_dispatch_poll, reachable_local_fns, norm_path, remaining_time, message_send_sites

EXTRA_CONFIGS = ('serde1', 'serde-transport')   # feature configurations re-analysed in the thorough tier
META = {
    'level': 'other',
    'technique': 'static provenance of the deadline value through (de)serialisation code, derive-generated visitors, dispatch and server registration (MIR), plus who-may-write',
    'text': 'Decides the structural clauses of deadline propagation: the wire encoding is deadline.duration_since(now) handed unchanged to Duration::serialize and the decoding is '
            'now (+|checked_add) the decoded Duration (inverse up to the two clock readings: shifted by transit time, never earlier; an expired deadline encodes as zero = now); '
            'the documented default is now + 10 s and the derive-generated visitors use it (never missing_field("deadline")); the request carries the caller\'s deadline and the '
            'server never rewrites it before handing the context to the handler; the span-scoped deadline stored by set_context is the request\'s and is what context::current() reads back.',
    'note': 'Trusted: Duration (de)serialisation in serde and the codecs; Instant arithmetic; tracing-opentelemetry extension storage. Not decided: numeric inequalities with real clocks.',
}


def _on_none_edge_of_checked_add(F, P, r):
    ru = P.unbound(r)
    if ru[0] != 'call':
        return False
    f = F.fns.get(ru[1])
    if f is None:
        return False
    pred = lambda x: any(P.is_call(q, 'Instant::checked_add') for q, _ in P.root(x))
    return bool(guarded_by_variant(F, P, f, ru[2], pred, ['None']))


def run(ctx):
    F, P, R = ctx.F, ctx.P, ctx.run
    R.explanation = META['text']
    R.rule_text = 'one obligation per (site, clause) over resolved MIR incl. serde-derive generated bodies; provenance by backward slicing'
    R.assumptions = ['serde Duration codec round-trips', 'Instant::duration_since saturates at zero (std >= 1.60)']
    R.info['configs'] = ['full']
    ctx_dl = F.field_of_type('context::Context', lambda t: t.endswith('Instant'))
    ctx_tc = F.field_of_type('context::Context', lambda t: t.endswith('trace::Context'))

    # ------------------------------------------------------------------ custom (de)serialisers reached from the derive
    ser_derive = [f for f in F.fns.values() if f.impl_of and (f.impl_of.get('trait') or '').endswith('Serialize') and F.is_derived(f)
                  and f.impl_of.get('self_head') and path_matches(f.impl_of['self_head'], 'context::Context')]
    de_derive = [f for f in F.fns.values() if f.impl_of and 'Deserialize' in (f.impl_of.get('trait') or '') and F.is_derived(f)
                 and f.impl_of.get('self_head') and path_matches(f.impl_of['self_head'], 'context::Context')]
    if len(ser_derive) != 1 or len(de_derive) != 1:
        raise CannotDecide('derived Serialize/Deserialize for context::Context: %d/%d' % (len(ser_derive), len(de_derive)))
    ser_fns = [f for f in F.fns.values() if f.id.startswith(ser_derive[0].id)]
    de_fns = [f for f in F.fns.values() if f.id.startswith(de_derive[0].id)]
    # the with-module functions: the local fns called from the generated __SerializeWith / __DeserializeWith wrappers
    enc = {F.callee_fn(t).id: F.callee_fn(t) for f in ser_fns for _, t in f.calls() if F.callee_fn(t) is not None and not F.callee_fn(t).id.startswith(ser_derive[0].id)}
    dec = {}
    defaults = {}
    for f in de_fns:
        for _, t in f.calls():
            c = F.callee_fn(t)
            if c is None or c.id.startswith(de_derive[0].id):
                continue
            if c.argc == 0:
                defaults[c.id] = c
            else:
                dec[c.id] = c
    R.ob('C07.codec', ('context::Context', 'custom deadline encoder reached from the derive'), len(enc) == 1,
         'the derived serializer routes the deadline through one custom function', [f.loc(f.d) for f in enc.values()] or [ser_derive[0].loc(ser_derive[0].d)])
    R.ob('C07.codec', ('context::Context', 'custom deadline decoder reached from the derive'), len(dec) == 1,
         'the derived deserializer routes the deadline through one custom function', [f.loc(f.d) for f in dec.values()] or [de_derive[0].loc(de_derive[0].d)])
    for e in enc.values():
        sites = [(bb, t) for bb, t in e.calls() if callee_is(t, 'Serialize::serialize')]
        ok = len(sites) == 1
        det = ''
        if ok:
            bb, t = sites[0]
            ok = 'Duration' in (t.get('self_ty') or '')
            ok2, dls, clamped, det = remaining_time(P, P.operand(e, t['args'][0], at=bb), allow_min=False)
            ok = ok and ok2 and all(r == ('param', e.id, 1) for d in dls for r, _ in P.root(d))
        R.ob('C07.codec', ('deadline encoder', 'encodes deadline - now as a Duration'), ok,
             'the wire value is deadline.duration_since(Instant::now()) passed unchanged to Duration::serialize', [e.loc(e.d)], det)
    for d in dec.values():
        des = [(bb, t) for bb, t in d.calls() if callee_is(t, 'Deserialize::deserialize')]
        ok = len(des) == 1 and 'Duration' in (des[0][1].get('self_ty') or '')
        det = []
        ret = P.root(P._field(P._variant(P._local_whole(d, 0), 'Ok'), 0, 0))
        primary = 0
        for r, p in ret:
            if ('t', '?err') in p:
                continue  # decode error propagated
            vp = norm_path(p)
            if not P.is_call(r, 'Add::add', 'Instant::checked_add', 'Instant::add'):
                ok = False
                det.append('result from %s' % P.describe(r))
                continue
            a = P.args_of(r)
            base_ok = all(P.is_call(x, 'Instant::now') for x, _ in P.root(a[0])) and bool(P.root(a[0]))
            addend = P.root(a[1])
            from_wire = bool(addend) and all(P.is_call(x, 'Deserialize::deserialize') and (('t', '?ok') in q or ('v', 'Ok') in q) for x, q in addend)
            const_add = bool(addend) and all(P.is_call(x, 'Duration::from_secs', 'Duration::new', 'Duration::from_millis') or x[0] == 'const' for x, _ in addend)
            if not base_ok:
                ok = False
                det.append('base of the sum is not Instant::now()')
            if from_wire:
                primary += 1
            elif const_add and (('t', 'else') in p or _on_none_edge_of_checked_add(F, P, r)):
                pass  # saturation fallback: now + constant far future, taken only when the checked sum overflowed
            else:
                ok = False
                det.append('addend from %s' % [P.describe(x) for x, _ in addend])
        R.ob('C07.codec', ('deadline decoder', 'decodes now + Duration'), ok and primary >= 1,
             'the decoded deadline is Instant::now() plus the decoded Duration (saturating fallback allowed)', [d.loc(d.d)], '; '.join(det))

    # ------------------------------------------------------------------ default
    R.ob('C07.default', ('context::Context', 'default fn used by the derive'), len(defaults) == 1,
         'the derived visitors call one default function for the deadline', [f.loc(f.d) for f in defaults.values()] or [de_derive[0].loc(de_derive[0].d)])
    for df in defaults.values():
        ret = P.root(P._local_whole(df, 0))
        ok = bool(ret)
        for r, p in ret:
            if not P.is_call(r, 'Add::add', 'Instant::add'):
                ok = False
                continue
            a = P.args_of(r)
            if not all(P.is_call(x, 'Instant::now') for x, _ in P.root(a[0])):
                ok = False
            secs = [x for x, _ in P.root(a[1])]
            if not (secs and all(P.is_call(x, 'Duration::from_secs') and const_int(P.args_of(x)[0]) == 10 for x in secs)):
                ok = False
        R.ob('C07.default', ('default deadline', 'now + 10 s'), ok, 'the default deadline is Instant::now() + Duration::from_secs(10)', [df.loc(df.d)])
        # used in both visitors
        users = [f for f in de_fns if any(F.callee_fn(t) is df for _, t in f.calls())]
        R.ob('C07.default', ('context::Context visitors', 'default applied for sequences and maps'), len(users) >= 2,
             'both generated visitors (visit_seq, visit_map) fall back to the default deadline', [f.loc(f.d) for f in users])
    mf = [(f, t) for f in de_fns for _, t in f.calls() if callee_is(t, 'missing_field')]
    bad = [(f, t) for f, t in mf if any(a.get('k') == 'const' and ctx_dl in a.get('v', '') for a in t['args'])]
    R.ob('C07.default', ('context::Context visitors', 'deadline never reported missing'), not bad,
         'a request that omits its deadline is not rejected with missing_field("%s")' % ctx_dl, [f.loc(t) for f, t in bad] or [de_derive[0].loc(de_derive[0].d)])
    # Deadline default for context::current()
    cur = F.inherent('context::Context', 'current')
    setc = None
    for im in F.trait_impls('SpanExt'):
        for name, mid in im['methods']:
            if name == 'set_context':
                setc = F.fns.get(mid)
    if setc is None:
        raise CannotDecide('SpanExt::set_context impl')
    # the span-scoped carrier type: whatever set_context stores with Context::with_value and wraps an Instant (identified by use, not by name)
    carrier = None
    from .common import deep_bodies
    setb = deep_bodies(F, setc)
    for bb, t in [(b_, t_) for g_ in setb for b_, t_ in g_.calls()]:
        if callee_is(t, 'opentelemetry::Context::with_value', 'Context::with_value'):
            ty = strip_refs((t.get('arg_tys') or ['', ''])[1])
            a_ = F.adts.get(ty.split('<')[0])
            if a_ is not None and any(x[1].endswith('Instant') for x in a_['variants'][0]['fields']):
                carrier = ty.split('<')[0]
    R.ob('C07.current', ('SpanExt::set_context', 'stores a deadline carrier in the span context'), carrier is not None,
         'installing a request context stores a value wrapping the deadline (an Instant) in the span\'s OpenTelemetry context', [setc.loc(setc.d)])
    if carrier is None:
        return
    cur_aggs = list(cur.aggregates('context::Context'))
    ok = len(cur_aggs) == 1
    det = ''
    if ok:
        i, j, s = cur_aggs[0]
        rs = P.root(P._field(('agg', cur.id, i, j), ctx_dl))
        det = str([P.describe(r) + str(list(norm_path(p))) for r, p in rs])
        got = [r for r, p in rs if P.is_call(r, 'opentelemetry::Context::get', 'Context::get')]
        ok = bool(got)
        for r in got:
            if carrier.split('::')[-1] not in (P.call_term(P.unbound(r)).get('substs') or ''):
                ok = False
        # every other alternative is the documented default: the default function itself, or Default::default of the carrier whose impl calls it
        dd = [im for im in F.trait_impls('Default') if im['self_head'] and path_matches(im['self_head'], carrier)]
        dflt_ok = False
        if len(dd) == 1:
            g = F.fns.get(dd[0]['methods'][0][1])
            dflt_ok = g is not None and any(F.callee_fn(t) is df for df in defaults.values() for _, t in g.calls())
        ok_def = True
        n_def = 0
        for r, p in rs:
            if r in got:
                continue
            n_def += 1
            ru = P.unbound(r)
            if ru[0] == 'call' and any(F.callee_fn(P.call_term(ru)) is df for df in defaults.values()):
                continue
            if ru[0] == 'call' and callee_is(P.call_term(ru), 'Instant::add', 'Add::add') and any(True for df in defaults.values()):
                # the default function inlined: now + 10 s
                a2 = P.args_of(r)
                if all(P.is_call(x, 'Instant::now') for x, _ in P.root(a2[0])) and all(P.is_call(x, 'Duration::from_secs') and const_int(P.args_of(x)[0]) == 10 for x, _ in P.root(a2[1])):
                    continue
            if ru[0] == 'const' and 'Default::default' in str(ru) and dflt_ok:
                continue
            ok_def = False
    else:
        ok_def, n_def = False, 0
    R.ob('C07.current', ('context::current', 'reads the span-scoped Deadline'), ok,
         'context::current() takes its deadline from the Deadline value stored in the current span\'s context (or the default)', [cur.loc(cur.d)], det)
    R.ob('C07.current', ('context::Deadline', 'default is the 10 s default'), ok_def and n_def >= 1, 'absent a request scope the deadline defaults to the same now + 10 s', [cur.loc(cur.d)], det)
    dls = [(g_, i, j, s) for g_ in setb for i, j, s in g_.aggregates(carrier)]
    ok = len(dls) == 1
    if ok:
        g_, i, j, s = dls[0]
        rs = P.root(P._field(('agg', g_.id, i, j), 0, 0), through_params=True, callers={x.id for x in setb})
        ok = bool(rs) and all(r == ('param', setc.id, 2) and P.fpath(p) == (ctx_dl,) for r, p in rs)
    R.ob('C07.current', ('SpanExt::set_context', 'stores the request deadline'), ok, 'the span-scoped Deadline is the deadline of the context being installed', [setc.loc(setc.d)])

    # ------------------------------------------------------------------ client: request carries the caller's deadline
    call = F.inherent('client::Channel', 'call')
    dr = [(f, i, j, s) for f in F.with_descendants(call) for i, j, s in f.aggregates('client::DispatchRequest')]
    dr_ctx = F.field_of_type('client::DispatchRequest', lambda t: t.endswith('context::Context'))
    for f, i, j, s in dr:
        rs = P.root(P._field(P._field(('agg', f.id, i, j), dr_ctx), ctx_dl))
        ok = bool(rs) and all(r[0] == 'param' and F.enclosing_item(F.fns[r[1]]).id == call.id and P.fpath(p) == (ctx_dl,) for r, p in rs)
        R.ob('C07.client', ('Channel::call', 'queues the caller\'s deadline unchanged'), ok, 'the queued request keeps ctx.deadline (no re-basing)', [f.loc(s)])
    poll = client_dispatch_poll(F)
    reach = reachable_local_fns(F, poll)
    sends = message_send_sites(F, P, reach, 'Request')
    R.ob('C07.client', ('dispatch poll', 'request send site'), len(sends) >= 1, 'the dispatch writes requests', [g.loc(t) for g, _, t, _ in sends] or [poll.loc(poll.d)])
    for g, sbb, st_, agg in sends:
        inner = P._field(agg, '0')
        rs = P.root(P._field(P._field(inner, 'context'), ctx_dl))
        ids = P.root(P._field(inner, 'id'))
        ok = bool(rs) and all(P.is_call(r, 'mpsc::Receiver::poll_recv') and P.fpath(p)[-2:] == (dr_ctx, ctx_dl) for r, p in rs) and {r for r, _ in rs} == {r for r, _ in ids}
        R.ob('C07.client', ('dispatch poll', 'wire deadline is the queued call\'s deadline'), ok,
             'Request.context.deadline is the deadline of the same dequeued call', [g.loc(st_)])

    # ------------------------------------------------------------------ server: deadline untouched up to the handler
    sr = [m for m in F.fns.values() if m.impl_of and m.impl_of.get('self_head') and path_matches(m.impl_of['self_head'], 'server::BaseChannel') and list(m.aggregates('server::TrackedRequest'))]
    if len(sr) != 1:
        raise CannotDecide('request registration fn')
    sr = sr[0]
    for i, j, s in sr.aggregates('server::TrackedRequest'):
        rs = P.root(P._field(P._field(P._field(('agg', sr.id, i, j), 'request'), 'context'), ctx_dl))
        ok = bool(rs) and all(r[0] == 'param' and r[1] == sr.id and P.fpath(p) == ('context', ctx_dl) for r, p in rs)
        R.ob('C07.server', ('BaseChannel request registration', 'deadline not rewritten'), ok, 'the tracked request keeps the decoded deadline', [sr.loc(s)])
    # who may write Context.deadline anywhere in server code (assignments through places)
    writes = []
    for f in F.fns.values():
        if not (f.npath.startswith('server::') or '::server::' in f.npath) or F.is_derived(f):
            continue
        for i, j, s in f.stmts():
            fs = [e[2] for e in s['pl']['p'] if e[0] == 'f']
            if fs and fs[-1] == ctx_dl:
                writes.append((f, s))
    R.ob('C07.server', ('server', 'no assignment to a context deadline'), not writes,
         'no server code path assigns to Context.deadline', [f.loc(s) for f, s in writes] or [sr.loc(sr.d)])
    ex = F.inherent('server::InFlightRequest', 'execute')
    from .common import deep_bodies
    for b in deep_bodies(F, ex):
        for bb, t in b.calls():
            if callee_is(t, 'server::Serve::serve'):
                rs = P.root(P.operand(b, t['args'][1], at=bb), through_params=True, callers={x.id for x in deep_bodies(F, ex)})
                ok = bool(rs) and all(r == ('param', ex.id, 1) and P.fpath(p) == ('request', 'context') for r, p in rs)
                R.ob('C07.server', ('InFlightRequest::execute', 'handler observes the request context'), ok,
                     'the handler receives the tracked request\'s context (deadline included) untouched', [b.loc(t)])
    R.count('functions_analysed', len(ser_fns) + len(de_fns) + len(reach) + 6)
