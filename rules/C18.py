"""C18 Trace context follows the request, and only that request — E-PROV."""
from engine.facts import CannotDecide, callee_is, path_matches, strip_generics
from engine import cfg
from .common import MAP_REMOVALS, Table, client_dispatch_poll, reachable_local_fns, norm_path, message_send_sites

EXTRA_CONFIGS = ('default', 'tokio1', 'serde1', 'serde-transport')   # feature configurations re-analysed in the thorough tier
META = {
    'level': 'other',
    'technique': 'static provenance (backward slicing over MIR with field-overwrite tracking) of every trace-context field along call -> dispatch -> wire -> server -> handler and the cancel path',
    'text': 'Decides where each field of the trace context comes from on every path: a child context copies trace id and sampling decision and draws a fresh span id; the context a call '
            'transmits is either the tracing span\'s or a child of the caller-supplied one, and that very value is what is queued, written into the request and stored in the in-flight table; '
            'the cancel message carries the context stored under the id being cancelled; the server overwrites only the trace context (span-derived after installing the received context as '
            'parent, or a child of the received one) and hands that context to the handler. No thread-local or static cell holds a context (C18.ambient) and Context::current() yields only the context of the current span or a fresh root (C18.current). Together with C01 pairing this implies that concurrent requests cannot exchange contexts.',
    'note': 'Trusted: OpenTelemetry / tracing-opentelemetry propagation behind Span::context and set_parent; rand for fresh span ids.',
}


def fresh(P, t):
    """is the value drawn fresh (random), i.e. none of its roots is a parameter?"""
    rs = P.root(t)
    if not rs:
        return False
    for r, p in rs:
        r = P.unbound(r)
        if r[0] == 'param':
            return False
        if r[0] == 'agg':
            # e.g. SpanId(random): look at the payload
            rv = P._agg_rv(r)
            f = P.F.fns[r[1]]
            if not rv['ops']:
                return False
            for o in rv['ops']:
                if not fresh(P, P.operand(f, o, at=r[2])):
                    return False
        elif r[0] == 'call':
            n = P.call_name(r) or ''
            if not any(k in n for k in ('Rng::gen', 'random', 'thread_rng', 'NonZero', '::get')):
                # unknown producer: accept only if it takes no parameter-derived argument
                if any(rr[0] == 'param' for a in P.call_args(r) for rr, _ in P.root(a)):
                    return False
        elif r[0] == 'const':
            return False
    return True


def run(ctx):
    F, P, R = ctx.F, ctx.P, ctx.run
    R.explanation = META['text']
    R.rule_text = 'one obligation per (site, field); provenance roots must be a subset of the allowed sources and the required sources must be present'
    R.assumptions = ['OpenTelemetry context propagation is correct', 'C01 pairing (checked separately) keeps table entries apart']
    R.info['configs'] = ['full']
    tc_adt = F.adt('trace::Context')
    tfields = [x[0] for x in tc_adt['variants'][0]['fields']]
    f_trace = [x[0] for x in tc_adt['variants'][0]['fields'] if x[1].endswith('TraceId')]
    f_span = [x[0] for x in tc_adt['variants'][0]['fields'] if x[1].endswith('SpanId')]
    f_samp = [x[0] for x in tc_adt['variants'][0]['fields'] if x[1].endswith('SamplingDecision')]
    if not (len(f_trace) == len(f_span) == len(f_samp) == 1):
        raise CannotDecide('trace::Context fields by type')
    f_trace, f_span, f_samp = f_trace[0], f_span[0], f_samp[0]
    ctx_tc = F.field_of_type('context::Context', lambda t: t.endswith('trace::Context'))
    ctx_dl = F.field_of_type('context::Context', lambda t: t.endswith('Instant'))

    # ---------------------------------------------------------------- child derivation
    childs = [m for m in F.fns.values() if m.impl_of and m.impl_of.get('self_head') and path_matches(m.impl_of['self_head'], 'trace::Context')
              and m.impl_of.get('trait') is None and list(m.aggregates('trace::Context')) and m.argc == 1
              and 'trace::Context' in m.local_ty(1)]      # derives a context from a context (its parameter is the parent)
    if len(childs) != 1:
        raise CannotDecide('child-context constructor: %d candidates' % len(childs))
    nc = childs[0]
    for i, j, s in nc.aggregates('trace::Context'):
        agg = ('agg', nc.id, i, j)
        for fld, same in ((f_trace, True), (f_samp, True)):
            rs = P.root(P._field(agg, fld))
            ok = bool(rs) and all(r == ('param', nc.id, 1) and P.fpath(p) == (fld,) for r, p in rs)
            R.ob('C18.child', ('trace::Context child', fld + ' copied'), ok, 'a child context keeps the parent\'s ' + fld, [nc.loc(s)])
        R.ob('C18.child', ('trace::Context child', 'fresh span id'), fresh(P, P._field(agg, f_span)),
             'each hop gets a fresh span id (not derived from the parent\'s)', [nc.loc(s)])

    def check_ctx_sources(tag, where, tc_term, parent_pred, span_pred, sites, follow=None):
        """tc_term: the transmitted trace context.  Allowed per field: span-derived (try_from(span)) or child of parent."""
        seen_span = seen_child = False
        ok_all = True
        det = []
        for fld in (f_trace, f_samp, f_span):
            rs = P.root(P._field(tc_term, fld), through_params=True, callers=follow) if follow else P.root(P._field(tc_term, fld))
            if not rs:
                ok_all = False
                det.append('%s: no source' % fld)
            for r, p in rs:
                if span_pred(r, p):
                    seen_span = True
                    continue
                if fld in (f_trace, f_samp):
                    if parent_pred(r, p, fld):
                        seen_child = True
                        continue
                else:
                    if r[0] != 'param' and fresh(P, ('phi', (r,)) if False else r) if r[0] in ('call', 'agg', 'bound') else False:
                        continue
                    ru = P.unbound(r)
                    if ru[0] == 'agg' and fresh(P, ru):
                        continue
                ok_all = False
                det.append('%s from %s%s' % (fld, P.describe(r), list(norm_path(p))))
        R.ob(tag, (where, 'sources of the transmitted trace context'), ok_all and seen_span and seen_child,
             'the trace context is the span\'s, or a child (same trace id and sampling decision, fresh span id) of the supplied one', sites, '; '.join(det))

    # ---------------------------------------------------------------- Channel::call
    call = F.inherent('client::Channel', 'call')
    bodies = F.with_descendants(call)
    dr = [(f, i, j, s) for f in bodies for i, j, s in f.aggregates('client::DispatchRequest')]
    if len(dr) != 1:
        raise CannotDecide('DispatchRequest constructor in call: %d' % len(dr))
    f, i, j, s = dr[0]
    dr_ctx_field = F.field_of_type('client::DispatchRequest', lambda t: t.endswith('context::Context'))
    cterm = P._field(('agg', f.id, i, j), dr_ctx_field)
    tc = P._field(cterm, ctx_tc)
    is_call_param = lambda r: r[0] == 'param' and F.enclosing_item(F.fns[r[1]]).id == call.id and 'context::Context' in F.fns[r[1]].local_ty(r[2])
    check_ctx_sources('C18.call', 'Channel::call', tc,
                      lambda r, p, fld: is_call_param(r) and P.fpath(p) == (ctx_tc, fld),
                      lambda r, p: P.is_call(r, 'tracing::Span::current') and ('t', 'conv') in p,
                      [f.loc(s)])
    dl = P.root(P._field(cterm, ctx_dl))
    R.ob('C18.call', ('Channel::call', 'only the trace context is rewritten'), bool(dl) and all(is_call_param(r) and P.fpath(p) == (ctx_dl,) for r, p in dl),
         'the rest of the caller\'s context is queued unchanged', [f.loc(s)])

    # ---------------------------------------------------------------- no ambient carrier
    # A request's context travels in the request values and in the tracing span only.  A thread-local or static holding a context is shared by every handler polled
    # on that thread: interleaved handlers would read each other's trace ids.
    HOLDERS = ('LocalKey<', 'Mutex<', 'RwLock<', 'Cell<', 'RefCell<', 'OnceLock<', 'OnceCell<', 'LazyLock<', 'AtomicPtr<', 'ArcSwap')
    CARRIED = ('context::Context', 'trace::Context', 'trace::TraceId', 'trace::SpanId', 'TraceId', 'SpanId', 'SamplingDecision')

    def ambient(ty):
        return bool(ty) and any(h in ty for h in HOLDERS) and any(c in ty for c in CARRIED)
    assert ambient('&std::thread::LocalKey<std::cell::Cell<std::option::Option<context::Context>>>') and not ambient('&std::sync::Mutex<usize>')   # the predicate itself is exercised on every run
    amb, n_ops = [], 0
    for g in F.fns.values():
        if F.is_derived(g):
            continue
        for bb, t in g.calls():
            tys = list(t.get('arg_tys') or []) + [t.get('self_ty') or '']
            n_ops += 1
            cal = strip_generics(t.get('callee') or '')
            if any(ambient(x) for x in tys) and ('LocalKey' in cal or any(a.get('k') == 'const' for a in t['args'])):
                amb.append(g.loc(t))
        for i, j, s_ in g.stmts():
            rv = s_['rv']
            ops = [rv.get('op'), rv.get('a'), rv.get('b')] + list(rv.get('ops') or [])
            for o in ops:
                if isinstance(o, dict) and o.get('k') == 'const' and ambient(o.get('ty') or ''):
                    amb.append(g.loc(s_))
    R.count('operands_scanned_for_ambient_state', n_ops)
    R.ob('C18.ambient', ('crate', 'no thread-local or static carries a context'), not amb,
         'trace contexts live in request values and in the tracing span only: no thread-local / static cell holds one (it would be shared by all handlers interleaved on a thread)', sorted(set(amb)))
    # what `Context::current()` hands out is the current span's context or a fresh root — nothing remembered from another request
    curs = [g for g in F.fns.values() if g.impl_of and path_matches(g.impl_of.get('self_head') or '', 'context::Context') and g.argc == 0 and not F.is_derived(g)
            and 'context::Context' in g.local_ty(0) and list(g.aggregates('context::Context'))]
    R.ob('C18.current', ('context::Context', 'ambient constructor found'), len(curs) == 1, 'Context::current() is the one argument-less constructor of a context', [g.loc(g.d) for g in curs])
    for g in curs:
        okc, detc = True, []
        rsc = P.root(P._field(P._local_whole(g, 0), ctx_tc))
        for r, p in rsc:
            ru = P.unbound(r)
            if P.is_call(r, 'tracing::Span::current') and ('t', 'conv') in p:
                continue
            if P.is_call(r, 'OpenTelemetrySpanExt::context') and ('t', 'conv') in p:
                # the span's OpenTelemetry context fetched first and converted afterwards: still the current span's
                rr_ = P.root(P.args_of(r)[0])
                if rr_ and all(P.is_call(x, 'tracing::Span::current') for x, _ in rr_):
                    continue
            if ru[0] == 'agg' and path_matches(P._agg_rv(ru)['adt'], 'trace::Context'):
                eg = F.enclosing_item(F.fns[ru[1]])
                if eg is not None and eg.impl_of and path_matches(eg.impl_of.get('self_head') or '', 'trace::Context') and eg.argc == 0:
                    continue     # a fresh root built by trace::Context's own argument-less constructor
            if ru[0] == 'call' and callee_is(P.call_term(ru), 'Default::default') and path_matches((P.call_term(ru).get('self_ty') or '').strip(), 'trace::Context'):
                continue     # `unwrap_or_default()` / `Default::default()` of trace::Context: the same fresh root
            if r[0] == 'const' and r[2] == 'Default::default()' and not [x for x in p if x[0] in 'fv']:
                continue     # the Default alternative of `unwrap_or_default()` on the whole trace context
            okc = False
            detc.append(P.describe(r) + str(list(norm_path(p))))
        R.ob('C18.current', ('Context::current', 'span-derived or fresh'), okc and bool(rsc),
             'the ambient context is derived from the current tracing span, or is a fresh root: never a value remembered from another request', [g.loc(g.d)], '; '.join(detc))

    # ---------------------------------------------------------------- dispatch: wire, table, cancel
    table = Table(F, 'client')
    poll = client_dispatch_poll(F)
    reach = reachable_local_fns(F, poll)
    R.count('functions_analysed', len(reach) + len(bodies))
    insert_m = table.one(table.inserting(), 'inserting')
    ctx_param = [k for k in range(1, insert_m.argc + 1) if insert_m.local_ty(k).endswith('context::Context')]
    if len(ctx_param) != 1:
        R.ob('C18.wire', ('client table insert', 'takes the call\'s context'), False, 'registering a request hands its context to the in-flight table', [insert_m.loc(insert_m.d)])
        ctx_param = [None]
    ctx_param = ctx_param[0]
    rsends = message_send_sites(F, P, reach, 'Request')
    R.ob('C18.wire', ('dispatch poll', 'request send site'), len(rsends) >= 1, 'the dispatch writes requests', [g.loc(t) for g, _, t, _ in rsends] or [poll.loc(poll.d)])
    for g, sbb, st_, agg in rsends:
        inner = P._field(agg, '0')
        wire_tc = P.root(P._field(P._field(inner, 'context'), ctx_tc))
        wire_id = P.root(P._field(inner, 'id'))
        ok = bool(wire_tc) and all(P.is_call(r, 'mpsc::Receiver::poll_recv') and P.fpath(p)[-2:] == (dr_ctx_field, ctx_tc) for r, p in wire_tc)
        same_item = {r for r, _ in wire_tc} == {r for r, _ in wire_id}
        R.ob('C18.wire', ('dispatch poll', 'request carries the queued trace context'), ok and same_item,
             'the trace context written into the request is that of the same dequeued call as the request id', [g.loc(st_)],
             str([P.describe(r) + str(list(norm_path(p))) for r, p in wire_tc]))
        for bb, t in g.calls():
            if F.callee_fn(t) is insert_m and ctx_param is not None:
                from .common import lifter
                st = P.root(lifter(F, P, reach)(g, P.operand(g, t['args'][ctx_param - 1], at=bb)))
                ok = bool(st) and {r for r, _ in st} == {r for r, _ in wire_id} and all(P.fpath(p)[-1:] == (dr_ctx_field,) for r, p in st)
                R.ob('C18.wire', ('dispatch poll', 'table stores that context'), ok,
                     'the context stored in the in-flight table under the id is the same call\'s context', [g.loc(t)])
    # stored unchanged
    for m in table.bodies(insert_m):
        for i, j, s in m.aggregates(table.data_path):
            cf = [x[0] for x in table.data['variants'][0]['fields'] if x[1].endswith('context::Context')]
            if len(cf) != 1:
                R.ob('C18.wire', ('client table insert', 'stores its context parameter'), False,
                     'the in-flight entry keeps the call\'s context (needed for the cancellation message)', [m.loc(s)], 'the entry type has %d context fields' % len(cf))
                continue
            rs = P.root(P._field(('agg', m.id, i, j), cf[0]))
            R.ob('C18.wire', ('client table insert', 'stores its context parameter'), ctx_param is not None and bool(rs) and all(r == ('param', insert_m.id, ctx_param) and not P.fpath(p) for r, p in rs),
                 'the table entry holds the context it was given', [m.loc(s)])
    csends = message_send_sites(F, P, reach, 'Cancel')
    n_ctor = len(list(F.all_aggregates('ClientMessage', 'Cancel')))
    R.ob('C18.cancel', ('client', 'cancel constructor sites'), len(csends) == 1 and n_ctor == 1,
         'exactly one site builds a cancel message, and the dispatch writes it', [g.loc(t) for g, _, t, _ in csends] or [poll.loc(poll.d)])
    for g, sbb, s, agg in csends:
        tcr = P.root(P._field(agg, 'trace_context'))
        idr = P.root(P._field(agg, 'request_id'))
        ok = bool(tcr) and all(P.is_call(r, *MAP_REMOVALS) and P.fpath(p)[-1:] == (ctx_tc,) for r, p in tcr)
        # the removal that produced the context is keyed by the id put in the message
        key_ok = False
        for r, p in tcr:
            ru = P.unbound(r)
            if ru[0] != 'call':
                continue
            ka = P.args_of(r)
            if len(ka) > 1:
                kr = {x for x, _ in P.root(ka[1])}
                key_ok = bool(kr) and kr == {x for x, _ in idr}
        R.ob('C18.cancel', ('dispatch poll', 'cancel carries the cancelled request\'s stored context'), ok and key_ok,
             'the cancel message\'s trace context is the one stored under the id it cancels (removed from the table by that id)', [g.loc(s)],
             'ctx:%s id:%s' % ([P.describe(r) + str(list(norm_path(p))) for r, p in tcr], [P.describe(r) for r, _ in idr]))

    # ---------------------------------------------------------------- server
    sr = None
    for m in F.fns.values():
        if m.impl_of and m.impl_of.get('self_head') and path_matches(m.impl_of['self_head'], 'server::BaseChannel') and list(m.aggregates('server::TrackedRequest')):
            if sr is not None:
                raise CannotDecide('several TrackedRequest constructors in BaseChannel')
            sr = m
    if sr is None:
        raise CannotDecide('no TrackedRequest constructor in BaseChannel')
    others = [(g, s) for g, i, j, s in F.all_aggregates('server::TrackedRequest') if g.id != sr.id]
    R.ob('C18.server', ('server', 'TrackedRequest constructors'), not others, 'only the base channel creates tracked requests', [g.loc(s) for g, s in others] or [sr.loc(sr.d)])
    req_param = [k for k in range(1, sr.argc + 1) if 'Request<' in sr.local_ty(k)]
    if len(req_param) != 1:
        raise CannotDecide('start_request: request parameter')
    req_param = req_param[0]
    from .common import deep_bodies
    for i, j, s in sr.aggregates('server::TrackedRequest'):
        rq = P._field(('agg', sr.id, i, j), 'request')
        c = P._field(rq, 'context')
        tc = P._field(c, ctx_tc)
        check_ctx_sources('C18.server', 'BaseChannel request registration', tc,
                          lambda r, p, fld: r == ('param', sr.id, req_param) and P.fpath(p) == ('context', ctx_tc, fld),
                          lambda r, p: (P.is_call(r, 'tracing::Span::new', 'tracing::Span::new_root', 'tracing::Span::child_of', '__disabled_span', 'tracing::Span::none')) and ('t', 'conv') in p,
                          [sr.loc(s)], follow={x.id for x in deep_bodies(F, sr)})     # the rewrite may sit in a private helper that is lent `&mut request.context`
        dl = P.root(P._field(c, ctx_dl))
        R.ob('C18.server', ('BaseChannel request registration', 'only the trace context is rewritten'),
             bool(dl) and all(r == ('param', sr.id, req_param) and P.fpath(p) == ('context', ctx_dl) for r, p in dl),
             'deadline, id and body of the received request are passed on unchanged', [sr.loc(s)])
    # set_context(&request.context) before deriving from the span
    srb = deep_bodies(F, sr)
    srb_ids = {x.id for x in srb}

    def sites_reaching(pred_):
        """(block in sr, innermost body, block, term): the call itself if it is in sr, or sr's call to the private helper that contains it"""
        out_ = []
        for g_ in srb:
            for b_, t_ in g_.calls():
                if not pred_(t_):
                    continue
                if g_.id == sr.id:
                    out_.append((b_, g_, b_, t_))
                else:
                    for b2_, t2_ in sr.calls():
                        h_ = F.callee_fn(t2_)
                        if h_ is not None and any(x.id == g_.id for x in deep_bodies(F, h_)):
                            out_.append((b2_, g_, b_, t_))
        return out_
    sc = sites_reaching(lambda t_: callee_is(t_, 'SpanExt::set_context'))
    tf = sites_reaching(lambda t_: callee_is(t_, 'TryFrom::try_from') and 'trace::Context' in (t_.get('self_ty') or ''))
    ok = len(sc) == 1 and len(tf) == 1
    if ok and sc[0][0] == tf[0][0] and sc[0][1].id == tf[0][1].id and sc[0][1].id != sr.id:
        # both in the same private helper: ordered inside it
        ok = cfg.dominates(sc[0][1], sc[0][2], tf[0][2]) and sc[0][2] != tf[0][2]
    elif ok:
        ok = cfg.dominates(sr, sc[0][0], tf[0][0]) and sc[0][0] != tf[0][0]
    if ok:
        ar = P.root(P.operand(sc[0][1], sc[0][3]['args'][1], at=sc[0][2]), through_params=True, callers=srb_ids)
        ok = bool(ar) and all(r == ('param', sr.id, req_param) and P.fpath(p) == ('context',) for r, p in ar)
    R.ob('C18.server', ('BaseChannel request registration', 'received context installed as the span\'s parent first'), ok,
         'the server span is parented to the received context before its own context is read back', [g_.loc(t_) for _, g_, _, t_ in sc + tf] or [sr.loc(sr.d)])
    # set_context body: ids flow into the remote span context
    setc = F.trait_method('SpanExt', None, 'set_context') if False else None
    for im in F.trait_impls('SpanExt'):
        for name, mid in im['methods']:
            if name == 'set_context':
                setc = F.fns.get(mid)
    if setc is None:
        raise CannotDecide('SpanExt::set_context impl')
    setb = deep_bodies(F, setc)
    news = [(g_, bb, t) for g_ in setb for bb, t in g_.calls() if callee_is(t, 'SpanContext::new')]
    ok = len(news) == 1
    if ok:
        g_, bb, t = news[0]
        want = [f_trace, f_span, f_samp]
        for k, fld in enumerate(want):
            rs = P.root(P.operand(g_, t['args'][k], at=bb), through_params=True, callers={x.id for x in setb})
            if not (rs and all(r[0] == 'param' and P.fpath(p)[-2:] == (ctx_tc, fld) for r, p in rs)):
                ok = False
    R.ob('C18.server', ('SpanExt::set_context', 'remote parent built from the received ids'), ok,
         'the remote span context is built from the received trace id, span id and sampling decision, in that order', [setc.loc(setc.d)])
    # handler receives the tracked request's context
    ex = F.inherent('server::InFlightRequest', 'execute')
    from .common import deep_bodies
    serves = [(b, bb, t) for b in deep_bodies(F, ex) for bb, t in b.calls() if callee_is(t, 'server::Serve::serve')]
    R.ob('C18.handler', ('InFlightRequest::execute', 'one serve call'), len(serves) == 1, 'execute invokes the handler once', [b.loc(t) for b, _, t in serves] or [ex.loc(ex.d)])
    for b, bb, t in serves:
        rs = P.root(P.operand(b, t['args'][1], at=bb), through_params=True, callers={x.id for x in deep_bodies(F, ex)})   # through a named async fn / helper of execute
        ok = bool(rs) and all(r == ('param', ex.id, 1) and P.fpath(p) == ('request', 'context') for r, p in rs)
        R.ob('C18.handler', ('InFlightRequest::execute', 'handler gets the request\'s context'), ok,
             'the context handed to the handler is the tracked request\'s context, untouched', [b.loc(t)], str([P.describe(r) + str(list(norm_path(p))) for r, p in rs]))
    # Requests::pump_read copies the request unchanged into the InFlightRequest
    for g, i, j, s in F.all_aggregates('server::InFlightRequest'):
        rs = P.root(P._field(('agg', g.id, i, j), 'request'), through_params=True)
        ok = bool(rs) and all(P.is_call(r, 'Stream::poll_next') and P.fpath(p)[-1:] == ('request',) for r, p in rs)
        R.ob('C18.handler', ('Requests stream', 'in-flight request wraps the tracked request unchanged'), ok,
             'the request (with its context) inside an InFlightRequest is the one yielded by the channel', [g.loc(s)], str([P.describe(r) + str(list(norm_path(p))) for r, p in rs]))
