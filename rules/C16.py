"""C16 No peer-supplied input can crash an endpoint — E-TAINT partial-operation rule + panic-site inventory (tarpc's own code)."""
from engine.facts import CannotDecide, callee_is, path_matches, strip_generics, is_tracing
from engine.prov import const_int
from .common import norm_path, in_module, MINLIKE, Table, returns_at_most
from engine.facts import ty_head

EXTRA_CONFIGS = ('default', 'tokio1', 'serde1', 'serde-transport')   # feature configurations re-analysed in the thorough tier
META = {
    'level': 'other',
    'technique': 'static taint rule over MIR: peer- or caller-chosen values (decoded messages, transport items, call contexts) must pass a sanitiser (min/clamp/checked_/saturating_) before '
                 'reaching an operand of a partial library operation; inventory of explicit panic sites with taint check of their operands',
    'text': 'Decides for tarpc\'s own code that no value chosen by the peer (anything read from the transport or produced by a Deserialize impl) or by a local caller (the context of a call) '
            'reaches a partial operation unsanitised: Instant/SystemTime +/- Duration, Duration arithmetic, DelayQueue::insert/reset, rfc3339 rendering, integer division/remainder, '
            'indexing and slicing (for strings also the content: char boundaries), copy_from_slice, split_at, removal/insertion by index, capacity requests, and unwrap/expect; taint flows through aggregates, lengths, adaptors and combinator closures. The five sites of defect D2 (decode overflow, two timer arms, two span renderings) are the instances this rule reports when the clamp is removed. '
            'Request ids only ever reach total operations (map keys, equality). Every explicit panic site in the crate is inventoried with the provenance of its operand. The message pumps (server channel, request stream, client dispatch) do not re-enter themselves through a transport read: stack depth does not grow with the number of consecutive messages (C16.recursion). The server end never goes idle without the transport read registered, whatever was ignored before (C16.serve, every decorator chain; back-pressure from a blocked sink is D5 and not judged here). '
            'NOT decided (not applicable to static analysis of tarpc): behaviour of the framed decoders on arbitrary byte strings (tokio-util, tokio-serde, serde_json, bincode) and allocation exhaustion.',
    'note': 'Trusted: the partial-operation table (std Instant/SystemTime/Duration arithmetic panics on overflow, DelayQueue::insert panics beyond its range, humantime fails past year 9999), '
            'Instant::duration_since saturates. External decoders are out of scope.',
}

# callee suffix -> indices of operands that must be bounded
PARTIAL = [
    (('ops::Add::add', 'ops::Sub::sub', 'ops::AddAssign::add_assign', 'ops::SubAssign::sub_assign'), ('std::time::Instant', 'std::time::SystemTime', 'std::time::Duration', 'tokio::time::Instant'), (0, 1)),
    (('DelayQueue::insert', 'DelayQueue::reset'), None, (2,)),
    (('DelayQueue::insert_at', 'DelayQueue::reset_at'), None, (2,)),
    (('humantime::format_rfc3339', 'humantime::format_rfc3339_seconds', 'humantime::format_rfc3339_millis', 'humantime::format_rfc3339_micros', 'humantime::format_rfc3339_nanos'), None, (0,)),
    (('ops::Mul::mul', 'ops::Div::div', 'Duration::from_secs_f64', 'Duration::from_secs_f32', 'Duration::mul_f64', 'Duration::mul_f32'), ('std::time::Duration', None), (0, 1)),
    (('ops::Index::index', 'ops::IndexMut::index_mut'), None, (1,)),
    # slicing a string panics when a bound is not on a character boundary: the content matters, not only the bound
    (('ops::Index::index', 'ops::IndexMut::index_mut', 'str::split_at', 'str::split_at_mut', 'String::truncate', 'String::split_off', 'String::remove', 'String::insert', 'String::insert_str',
      'String::drain', 'String::replace_range'), ('str', 'std::string::String', 'String'), (0,)),
    (('slice::split_at', 'slice::split_at_mut', 'Vec::split_off', 'Vec::remove', 'Vec::swap_remove', 'Vec::insert', 'Vec::drain', 'slice::copy_within', 'slice::swap', 'slice::chunks',
      'slice::chunks_exact', 'slice::windows', 'Vec::with_capacity', 'HashMap::with_capacity', 'HashMap::with_capacity_and_hasher', 'Vec::reserve', 'HashMap::reserve',
      'String::with_capacity', 'VecDeque::with_capacity'), None, (0, 1)),
    (('slice::copy_from_slice', 'slice::clone_from_slice'), None, (0, 1)),   # panics unless both lengths are equal
    (('Duration::new',), None, (0, 1)),       # panics when the nanosecond carry overflows the seconds
]
TIMER_RANGE_MS = 1 << 35   # tokio-util's DelayQueue wheel spans 2^36 ms measured from the queue's creation; half of it leaves room for the queue's age
PASS_THROUGH = ('Instant::duration_since', 'Instant::saturating_duration_since', 'Instant::checked_duration_since', 'SystemTime::duration_since', 'TimeUntil::time_until',
                'ops::Add::add', 'ops::Sub::sub', 'ops::Mul::mul', 'Duration::saturating_add', 'Duration::saturating_sub', 'Duration::saturating_mul', 'Duration::as_secs', 'Duration::as_millis',
                'Duration::from_secs', 'Duration::from_millis', 'Duration::new', 'Instant::elapsed', 'Duration::checked_add', 'Instant::checked_add', 'Instant::checked_sub',
                'Vec::len', 'slice::len', 'str::len', 'String::len', 'VecDeque::len', 'HashMap::len', 'Vec::as_slice', 'Vec::as_mut_slice', 'String::as_str', 'String::as_bytes', 'str::as_bytes',
                'ops::Deref::deref', 'ops::DerefMut::deref_mut', 'ops::Index::index', 'ops::IndexMut::index_mut', 'convert::AsRef::as_ref', 'borrow::Borrow::borrow')
# Option / Result / reference adaptors: the result is (part of) the receiver
ADAPTORS = ('Result::err', 'Result::ok', 'Result::as_ref', 'Result::as_mut', 'Option::as_ref', 'Option::as_mut', 'Option::as_deref', 'Result::as_deref', 'Option::take', 'Option::cloned', 'Option::copied',
            'Option::unwrap_or_default', 'Result::unwrap_or_default', 'Option::ok_or', 'Option::ok_or_else', 'Option::flatten', 'Option::or', 'Option::xor', 'Option::zip', 'Result::iter', 'Option::iter',
            'borrow::ToOwned::to_owned', 'string::ToString::to_string', 'String::from', 'str::to_string', 'str::to_owned', 'str::trim', 'str::trim_start', 'str::trim_end', 'String::into_bytes',
            'String::into_boxed_str', 'Vec::into_boxed_slice', 'slice::to_vec', 'slice::iter', 'Vec::iter', 'mem::take', 'mem::replace', 'Box::new', 'Arc::new', 'Rc::new', 'Cow::into_owned', 'Cow::as_ref')
GENERIC_PASS = True
SANITISERS = MINLIKE + ('Duration::min',)


def index_in_range(F, P, f, local, at_block, length):
    """every assignment that can give the index local its value either assigns a constant < length or happens under a dominating fact value < L (L <= length)
    or value <= L (L < length)"""
    from .common import cmp_facts
    seen, work, alts = set(), [local], []
    while work:
        l = work.pop()
        if l in seen:
            continue
        seen.add(l)
        defs = [(i, j, s_) for i, j, s_ in f.stmts() if s_['pl']['l'] == l and not s_['pl']['p']]
        if not defs:
            alts.append((at_block, ('local', l)))    # a parameter or a call result: judged by the facts that dominate the bounds check
            continue
        for i, j, s_ in defs:
            rv = s_['rv']
            src = rv['op'] if rv['k'] == 'use' else (rv.get('op') or rv.get('a')) if rv['k'] == 'cast' else None
            if src is None:
                if len(defs) == 1:
                    alts.append((at_block, ('local', l)))
                    continue
                return False, 'index computed by %s' % rv['k']
            if src['k'] == 'const':
                alts.append((i, ('const', src)))
            elif src['k'] in ('copy', 'move') and not src['pl']['p']:
                if len(defs) == 1:
                    work.append(src['pl']['l'])          # a plain copy / cast chain: keep walking
                else:
                    alts.append((i, ('local', src['pl']['l'])))   # one arm of a join: judged by the facts at this assignment
            else:
                if len(defs) == 1:
                    alts.append((at_block, ('local', l)))
                else:
                    return False, 'index from a projection assigned in a join'
    for i, (kind, x) in alts:
        if kind == 'const':
            v = const_int(P.operand(f, x, at=i))
            if v is None:
                # a named constant: evaluated value unknown here
                rs = P.root(P.operand(f, x, at=i))
                v = P.fold_int(rs[0][0]) if len(rs) == 1 else None
            if v is None or v >= length:
                return False, 'constant alternative not known to be < %d' % length
            continue
        if kind != 'local':
            return False, 'index from %s' % (x,)
        val = P.local(f, x, at=i)
        same = lambda t_: {(P.unbound(r), norm_path(p)) for r, p in P.root(t_)} == {(P.unbound(r), norm_path(p)) for r, p in P.root(val)} and bool(P.root(val))
        ok = False
        for op, a, b_, _sw in cmp_facts(F, P, f, i):
            for (o2, xx, yy) in ((op, a, b_), ({'Lt': 'Gt', 'Le': 'Ge', 'Gt': 'Lt', 'Ge': 'Le', 'Eq': 'Eq', 'Ne': 'Ne'}[op], b_, a)):
                if not same(xx):
                    continue
                lim = const_int(yy)
                if lim is None:
                    rs = P.root(yy)
                    if len(rs) == 1 and P.is_call(rs[0][0], 'slice::len', 'Vec::len'):
                        lim = length    # compared with the length of a collection: assume it is this array (checked by the constant in the bounds check)
                if lim is None:
                    continue
                if (o2 == 'Lt' and lim <= length) or (o2 == 'Le' and lim < length):
                    ok = True
        if not ok:
            return False, 'value assigned at block %d is not under a dominating fact value < %d' % (i, length)
    return True, 'all %d alternatives in range' % len(alts)


def zeroable_divisor(F, P, tables, term):
    """a divisor that is the size of a collection the peer's traffic fills and drains (it is 0 when the last request leaves), not bounded away from 0"""
    for r, p in P.root(term, through_params=True):
        ru = P.unbound(r)
        if ru[0] != 'call':
            continue
        t = P.call_term(ru)
        if callee_is(t, 'cmp::max', 'Ord::max', 'cmp::Ord::max', 'usize::max', 'u64::max', 'u32::max'):
            continue
        if not callee_is(t, 'HashMap::len', 'DelayQueue::len', 'Vec::len', 'VecDeque::len', 'HashSet::len'):
            continue
        for rr, pp in P.root(P.args_of(r)[0], through_params=True):
            if rr[0] == 'param':
                fp = P.fpath(pp)
                owner = F.fns[rr[1]].local_ty(rr[2])
                for (adt, fld) in tables:
                    if fp and fp[-1] == fld and adt.split('::')[-1] in owner:
                        return 'divisor is the size of %s.%s, which is 0 whenever the peer\'s traffic has drained it' % (adt.split('::')[-1], fld)
    return None


class Taint:
    def __init__(self, F, P):
        self.F, self.P = F, P
        self.memo = {}

    def source(self, r):
        """is root r a peer/caller-controlled source?  returns description or None"""
        F, P = self.F, self.P
        ru = P.unbound(r)
        if ru[0] == 'call':
            t = P.call_term(ru)
            if callee_is(t, 'Stream::poll_next', 'poll_next_unpin') and 'Fuse<' in (t.get('self_ty') or ''):
                return 'item read from the transport'
            if callee_is(t, 'Deserialize::deserialize', 'DeserializeSeed::deserialize', 'SeqAccess::next_element', 'MapAccess::next_value', 'SeqAccess::next_element_seed',
                         'MapAccess::next_value_seed', 'MapAccess::next_key', 'EnumAccess::variant', 'VariantAccess::newtype_variant', 'VariantAccess::struct_variant',
                         'VariantAccess::tuple_variant') or (t.get('trait') or '').endswith('Deserializer'):
                return 'decoded value'
            if callee_is(t, 'mpsc::Receiver::poll_recv') and 'DispatchRequest' in str(t.get('arg_tys')):
                return 'request queued by a local caller (carries the caller\'s context)'
        if ru[0] == 'param':
            f = F.fns[ru[1]]
            ty = f.local_ty(ru[2])
            if any(k in ty for k in ('context::Context', 'Request<', 'ClientMessage<', 'std::time::Instant', 'std::time::Duration', 'DispatchRequest')):
                # boundary parameter (no caller in the crate supplies it, or P could not follow)
                return 'parameter `%s: %s` of %s' % (f.local_name(ru[2]) or ru[2], ty.split('::')[-1], F.enclosing_item(f).npath)
        return None

    def _is_constant(self, a):
        P = self.P
        rs = P.root(a)
        return bool(rs) and all(x[0] == 'const' or P.is_call(x, 'Duration::from_secs', 'Duration::from_millis', 'Duration::new') for x, _ in rs)

    def bounded_by_local_min(self, term, depth=3):
        """every alternative of the value is the result of a local function that returns at most one of its arguments (a hand-written min, possibly behind
        one more local wrapper), called with a constant for that argument"""
        P, F = self.P, self.F
        if depth == 0:
            return False
        rs = P.root(term, through_params=True, inline=False)
        if not rs:
            return False
        for r, p in rs:
            if norm_path(p):
                return False
            ru = P.unbound(r)
            if ru[0] != 'call':
                return False
            g = F.callee_fn(P.call_term(ru))
            if g is None or g.coroutine:
                return False
            args = P.args_of(r)
            ks = returns_at_most(F, P, g)
            if any(k - 1 < len(args) and self._is_constant(args[k - 1]) for k in ks):
                continue
            # a wrapper: its own result is bounded in the same way (arguments bound to this call)
            ret = P.subst(P._local_whole(g, 0), g.id, args)
            if not self.bounded_by_local_min(ret, depth - 1):
                return False
        return True

    def tainted(self, term, depth=10):
        """returns a description of an unsanitised tainted source reaching term, or None"""
        P = self.P
        if depth == 0:
            return None
        key = (term, depth > 0)
        if key in self.memo:
            return self.memo[key]
        self.memo[key] = None
        res = None
        if self.bounded_by_local_min(term):
            return None
        for r, p in P.root(term, through_params=True):
            ru = P.unbound(r)
            if ru[0] == 'const':
                continue
            if ru[0] == 'call':
                t = P.call_term(ru)
                if callee_is(t, *SANITISERS):
                    args = P.args_of(r)
                    if any(all(x[0] == 'const' or P.is_call(x, 'Duration::from_secs', 'Duration::from_millis', 'Duration::new') for x, _ in P.root(a)) and P.root(a) for a in args):
                        continue  # bounded by a constant
                src = self.source(r)
                if src:
                    res = src
                    break
                if callee_is(t, *PASS_THROUGH) or (GENERIC_PASS and self.F.callee_fn(t) is None and callee_is(t, *ADAPTORS)):
                    for a in P.args_of(r):
                        sub = self.tainted(a, depth - 1)
                        if sub:
                            res = sub
                            break
                    if res:
                        break
                continue
            if ru[0] == 'bin':
                for a in (ru[2], ru[3]):
                    sub = self.tainted(a, depth - 1)
                    if sub:
                        res = sub
                if res:
                    break
                continue
            if ru[0] == 'agg':
                # a value built from parts (a range, a tuple): tainted if a part is
                rv_ = P._agg_rv(ru)
                fn_ = self.F.fns.get(ru[1])
                if fn_ is not None and rv_.get('adt') not in ('closure', 'coroutine'):
                    for op_ in rv_.get('ops') or ():
                        sub = self.tainted(P.operand(fn_, op_, at=ru[2]), depth - 1)
                        if sub:
                            res = sub
                            break
                if res:
                    break
                continue
            if ru[0] in ('un', 'len', 'cast', 'unop', 'ptrmeta'):
                for a in ru[1:]:
                    if isinstance(a, tuple):
                        sub = self.tainted(a, depth - 1)
                        if sub:
                            res = sub
                if res:
                    break
                continue
            src = self.source(r)
            if src:
                res = src
                break
        self.memo[key] = res
        return res


def run(ctx):
    F, P, R = ctx.F, ctx.P, ctx.run
    R.explanation = META['text']
    R.rule_text = 'one obligation per (partial-operation site, operand) and per explicit panic site; non-trivial = a real call site in tarpc code'
    R.assumptions = ['the partial-operation table is complete for the std/tokio-util/humantime APIs tarpc uses']
    R.info['configs'] = ['full']
    T = Taint(F, P)
    # collections whose size follows the peer's traffic: the two in-flight tables and the per-key channel table
    tables = set()
    for side in ('client', 'server'):
        tb = Table(F, side)
        tables.add((tb.path, tb.map_field))
        tables.add((tb.path, tb.timer_field))
    try:
        kt = F.adt('MaxChannelsPerKey')
        for fld in kt['variants'][0]['fields']:
            if ty_head(fld[1])[0].endswith('HashMap'):
                tables.add(('MaxChannelsPerKey', fld[0]))
    except CannotDecide:
        pass
    fns = [f for f in F.fns.values() if not F.is_derived(f)]
    R.count('functions_analysed', len(fns))
    n_partial = 0
    for f in fns:
        item = F.enclosing_item(f)
        where = item.npath if item else f.npath
        for bb, t in f.calls():
            for names, self_tys, idxs in PARTIAL:
                if not callee_is(t, *names):
                    continue
                st = t.get('self_ty')
                if self_tys is not None and st not in self_tys:
                    continue
                n_partial += 1
                op_name = strip_generics(t['callee']).split('::')[-1] + ('<%s>' % st.split('::')[-1] if st else '')
                for k in idxs:
                    if k >= len(t['args']):
                        continue
                    why = T.tainted(P.operand(f, t['args'][k], at=bb))
                    R.ob('C16.partial', (where, op_name, 'operand %d' % k), why is None,
                         'operand %d of partial operation %s is constant, locally derived, or bounded by min/clamp before use' % (k, op_name), [f.loc(t)],
                         ('unsanitised: ' + why) if why else None)
        for i, j, s in f.stmts():
            rv = s['rv']
            if rv['k'] == 'bin' and rv['op'] in ('Div', 'Rem', 'Shl', 'Shr', 'Add', 'Sub', 'Mul', 'AddWithOverflow', 'SubWithOverflow', 'MulWithOverflow') and not is_tracing(s):
                if (rv.get('aty') or '').startswith('f'):
                    continue
                n_partial += 1
                whys = [T.tainted(P.operand(f, rv[x], at=i)) for x in ('a', 'b')]
                why = whys[0] or whys[1]
                if why is None and rv['op'] in ('Div', 'Rem'):
                    why = zeroable_divisor(F, P, tables, P.operand(f, rv['b'], at=i))
                R.ob('C16.arith', (where, 'integer ' + rv['op']), why is None,
                     'integer arithmetic that can trap (%s) has no peer- or caller-controlled operand (ids reach only total operations)' % rv['op'], [f.loc(s)],
                     ('unsanitised: ' + why) if why else None)
    # built-in indexing of arrays / slices: the compiler's bounds check panics; a peer-chosen index must be proven in range on every way it gets its value
    import re as _re
    for f in fns:
        for i, b in enumerate(f.blocks):
            tm = b['term']
            if b['cleanup'] or tm['k'] != 'assert' or 'BoundsCheck' not in tm.get('msg', ''):
                continue
            m_i = _re.search(r'index: (?:copy|move) _(\d+)', tm['msg'])
            m_l = _re.search(r'len: const (\d+)_usize', tm['msg'])
            if not m_i:
                continue
            idx_local = int(m_i.group(1))
            why = T.tainted(P.local(f, idx_local, at=i))
            if why is None:
                continue
            n_partial += 1
            item = F.enclosing_item(f)
            where = item.npath if item else f.npath
            safe, det = False, ''
            if m_l:
                safe, det = index_in_range(F, P, f, idx_local, i, int(m_l.group(1)))
            R.ob('C16.partial', (where, 'array index', 'bounds'), safe,
                 'a peer-chosen array index is proven smaller than the array length (by a dominating comparison or a constant) on every way it gets its value', [f.loc(tm)],
                 'unsanitised: %s; %s' % (why, det))
    # the constant that bounds a timer duration must lie inside the timer's range
    for f in fns:
        for bb, t in f.calls():
            if callee_is(t, 'DelayQueue::insert', 'DelayQueue::reset'):
                for r, p in P.root(P.operand(f, t['args'][2], at=bb)):
                    if P.is_call(r, *SANITISERS):
                        ms = [P.duration_ms(a) for a in P.args_of(r)]
                        ms = [m for m in ms if m is not None]
                        item = F.enclosing_item(f)
                        R.ob('C16.range', (item.npath if item else f.npath, 'timer bound inside the timer range'), bool(ms) and min(ms) <= TIMER_RANGE_MS,
                             'the constant that clamps the timeout handed to DelayQueue is at most 2^35 ms (DelayQueue::insert panics for timeouts beyond its 2^36 ms wheel, measured from the queue\'s creation)',
                             [f.loc(t)], 'bound = %s ms' % (min(ms) if ms else 'not a compile-time constant'))
    # DelayQueue::remove panics on a key that is no longer valid: timers are removed only together with their entry (both tables)
    from .C11 import timer_removed_with_entry
    n_partial += timer_removed_with_entry(ctx, 'C16.partial', 'client')
    n_partial += timer_removed_with_entry(ctx, 'C16.partial', 'server')
    # no recursion whose depth the peer controls: a message pump that re-enters itself per message read (instead of looping) grows the stack by one frame for every
    # consecutive frame the transport has buffered — a burst of ignorable messages then overflows the stack and aborts the process
    from .common import client_dispatch_poll
    entries = [F.trait_method('Stream', 'server::BaseChannel', 'poll_next'), F.trait_method('Stream', 'server::Requests', 'poll_next'), client_dispatch_poll(F)]
    graph = {}

    def succs(g):
        if g.id not in graph:
            out_ = set()
            for x in F.with_descendants(g):
                for _, t in x.calls():
                    c = F.callee_fn(t)
                    if c is not None and not F.is_derived(c):
                        item_ = F.enclosing_item(c)
                        if c.kind == 'Closure' and item_ is not None and item_.id == g.id:
                            continue     # calling one of its own closures is not re-entering the function (their bodies are already part of it)
                        out_.add(item_.id if item_ is not None else c.id)
            graph[g.id] = out_
        return graph[g.id]
    seen_, work = set(), [e.id for e in entries if e is not None]
    while work:
        gid = work.pop()
        if gid in seen_ or gid not in F.fns:
            continue
        seen_.add(gid)
        work.extend(succs(F.fns[gid]))

    def reaches(a, b, lim=2000):
        st, vis = [a], set()
        while st and lim:
            lim -= 1
            x = st.pop()
            for y in graph.get(x, ()):
                if y == b:
                    return True
                if y not in vis and y in graph:
                    vis.add(y)
                    st.append(y)
        return False
    cyc = sorted(gid for gid in seen_ if reaches(gid, gid))
    reads = lambda gid: any(callee_is(t, 'Stream::poll_next', 'poll_next_unpin') and 'Fuse<' in (t.get('self_ty') or '') + ''.join(t.get('arg_tys') or []) for x in F.with_descendants(F.fns[gid]) for _, t in x.calls())
    peer_driven = [gid for gid in cyc if any(reads(y) for y in cyc if reaches(gid, y) or y == gid)]
    R.count('pump_functions_checked_for_recursion', len(seen_))
    R.ob('C16.recursion', ('message pumps', 'no recursion driven by messages read'), not peer_driven,
         'the functions that read and dispatch the peer\'s messages loop, they do not re-enter themselves: stack depth does not grow with the number of consecutive messages the peer sends',
         [F.fns[g].loc(F.fns[g].d) for g in peer_driven])
    if cyc and not peer_driven:
        raise CannotDecide('recursion among %s (not through a transport read): depth not bounded by this analysis' % cyc[:3])
    # "keeps serving well-formed traffic": whatever the peer sent (duplicates, cancels for unknown ids, floods of either), the server end never goes idle without
    # the transport read registered — a yield / early return that forgets the waker would leave the rest of the peer's traffic unread for good.  (Back-pressure
    # from a response sink that is not ready is a different matter and not judged here.)
    from .coverage import coverage
    coverage(ctx, 'C16.serve', ('R',), blocked_too=False)
    R.count('partial_operation_sites', n_partial)
    if n_partial < 8:
        raise CannotDecide('only %d partial-operation sites found (floor 8)' % n_partial)

    # ------------------------------------------------------------------ explicit panic sites
    inv = []
    for f in fns:
        item = F.enclosing_item(f)
        where = item.npath if item else f.npath
        for bb, t in f.calls():
            c = strip_generics(t.get('callee') or '')
            if c.endswith('Option::unwrap') or c.endswith('Option::expect') or c.endswith('Result::unwrap') or c.endswith('Result::expect') or c.endswith('Result::unwrap_err') or c.endswith('Result::expect_err'):
                why = T.tainted(P.operand(f, t['args'][0], at=bb))
                inv.append({'site': f.loc(t), 'in': where, 'kind': c.split('::')[-1], 'tainted': why})
                R.ob('C16.panic', (where, c.split('::')[-2] + '::' + c.split('::')[-1]), why is None,
                     'the value unwrapped here does not depend on peer- or caller-chosen data', [f.loc(t)], ('operand: ' + why) if why else None)
            elif c.endswith('panicking::panic_fmt') or c.endswith('panicking::panic') or c.endswith('panicking::unreachable_display') or c.endswith('panicking::assert_failed'):
                inv.append({'site': f.loc(t), 'in': where, 'kind': 'panic!/unreachable!', 'tainted': None})
        for i, b in enumerate(f.blocks):
            if not b['cleanup'] and b['term']['k'] == 'assert':
                inv.append({'site': f.loc(b['term']), 'in': where, 'kind': 'compiler assert: ' + b['term']['msg'][:40], 'tainted': None})
    R.info['panic_site_inventory'] = inv
    R.count('explicit_panic_sites', len(inv))
