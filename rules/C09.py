"""C09 Transport failures are contained and reported — activity tags, per-request send failure, stop-at-error."""
from engine.facts import CannotDecide, callee_is, path_matches, strip_generics
from engine import cfg
from .common import (Table, client_dispatch_poll, reachable_local_fns, norm_path, guarded_by_variant, result_of, in_module)
from .server_common import Server

EXTRA_CONFIGS = ('default', 'tokio1', 'serde1', 'serde-transport')   # feature configurations re-analysed in the thorough tier
META = {
    'level': 'other',
    'technique': 'static table rule: every transport call site\'s error is mapped (closure provenance) to the ChannelError variant naming that activity; variant-preserving conversions; '
                 'edge rules for the per-request send failure; who-may-construct; shape walker for terminal fan-out (C02.3)',
    'text': 'Decides for every transport operation in client and server code (poll_ready / start_send / poll_flush / poll_close / poll_next on the fused transport) that its error is wrapped in '
            'exactly the ChannelError variant that names the activity, that clone / upcast / downcast keep the variant, that a failed request write completes only that call with '
            'RpcError::Send and is not turned into a channel error, that the enqueue failure and a dropped dispatcher map to Shutdown, that the server\'s execute() stops at the first '
            'stream error (take_while is_ok) and that dropping the in-flight table aborts every handler; on every abstract path a failed transport operation ends the activation with an error, and an activation that starts with a stored terminal error performs no transport operation and completes only with Err; the dispatch ends well only if the read side ended or poll_close returned Ready(Ok) in that very activation, so a failing close is always reported (C09.close). No explicit panic is reachable from a transport error (inventory shared with C16).',
    'note': 'Trusted: futures combinators (map_err, take_while), Arc. The terminal-error fan-out ordering (close queue, fail in-flight, drain) is decided by the shape walker under C02.',
}

TAG = {'poll_ready': 'Ready', 'poll_flush': 'Flush', 'poll_close': 'Close', 'poll_next': 'Read', 'start_send': 'Write'}


def stops_at_first_error(ctx, tag):
    """Requests::execute consumes the request stream only up to its first error item"""
    F, P, R = ctx.F, ctx.P, ctx.run
    ex = [f for f in F.fns.values() if f.impl_of and f.impl_of.get('self_head') and path_matches(f.impl_of['self_head'], 'server::Requests') and f.npath.endswith('::execute')]
    if len(ex) != 1:
        raise CannotDecide('Requests::execute')
    ex = ex[0]
    tw = [(bb, t) for bb, t in ex.calls() if callee_is(t, 'StreamExt::take_while')]
    ok = len(tw) == 1
    if ok:
        bb, t = tw[0]
        # the predicate: a closure built here, or a named function passed by value
        body, item_param = None, None
        for r, _ in P.root(P.operand(ex, t['args'][1], at=bb)):
            if r[0] == 'agg' and P._agg_rv(r).get('adt') == 'closure':
                body, item_param = F.fns.get(P._agg_rv(r)['adt_id']), 2
            elif r[0] == 'const' and len(r) > 3 and r[3]:
                cands = [f_ for f_ in F.fns.values() if f_.kind == 'Fn' and f_.npath == str(r[3]).split('<')[0].replace('tarpc::', '', 1) or f_.id == 'tarpc::' + str(r[3]).split('<')[0]]
                if len(cands) == 1:
                    body, item_param = cands[0], 1
        ok = body is not None
        if ok:
            readies = [(b2, t2) for b2, t2 in body.calls() if callee_is(t2, 'future::ready')]
            rr = P.root(P._local_whole(body, 0))
            ok = bool(rr) and bool(readies) and all(P.is_call(r, 'future::ready') for r, _ in rr)
            is_item = lambda x: bool(P.root(x)) and all(y == ('param', body.id, item_param) for y, _ in P.root(x))
            for b2, t2 in readies:
                ar = P.root(P.operand(body, t2['args'][0], at=b2))
                if ar and all(P.is_call(x, 'Result::is_ok') and is_item(P.args_of(x)[0]) for x, _ in ar):
                    continue     # ready(result.is_ok())
                # ready(true) on the Ok edge / ready(false) on the Err edge of a match on the item
                arg = t2['args'][0]
                if arg.get('k') == 'const' and arg.get('ty') == 'bool':
                    want = ['Ok'] if 'true' in arg['v'] else ['Err']
                    if guarded_by_variant(F, P, body, b2, is_item, want):
                        continue
                ok = False
        recv = P.root(P.operand(ex, t['args'][0], at=bb))
        ok = ok and all(r == ('param', ex.id, 1) for r, _ in recv)
    R.ob(tag, ('Requests::execute', 'stops at the first channel error'), ok, 'serving a channel stops at the first error item of its request stream (take_while(result.is_ok()))', [ex.loc(ex.d)])
    return ex


def run(ctx):
    F, P, R = ctx.F, ctx.P, ctx.run
    R.explanation = META['text']
    R.rule_text = 'one obligation per transport call site (tag), per conversion arm (variant preserved), per clause of the failure paths'
    R.assumptions = ['map_err applies its closure exactly to the Err payload']
    R.info['configs'] = ['full']

    # ------------------------------------------------------------------ end-of-stream is sticky: both endpoints keep their transport fused
    # (a Stream may panic when polled again after Ready(None); both endpoints do poll again while requests are still in flight.  The rules below also
    # recognise transport operations by this wrapper.)
    fused = {}
    for adt_name in ('client::RequestDispatch', 'server::BaseChannel'):
        a_ = F.adt(adt_name)
        fused[adt_name] = [x[0] for x in a_['variants'][0]['fields'] if x[1].split('<')[0].endswith('stream::Fuse')]
        R.ob('C09.fused', (adt_name.split('::')[-1], 'transport is fused'), len(fused[adt_name]) == 1,
             'the endpoint stores its transport as Fuse<T>: once the transport reported end-of-stream it is not polled again (a transport may panic if it is), and reads after the end keep returning None',
             [], 'Fuse fields: %s' % fused[adt_name])
    if not all(len(v) == 1 for v in fused.values()):
        return
    # ------------------------------------------------------------------ transport call sites and their tags
    sites = []
    for f in F.fns.values():
        if not (in_module(f, 'client') or in_module(f, 'server')) or F.is_derived(f):
            continue
        if in_module(f, 'client::stub') or in_module(f, 'server::limits') or in_module(f, 'server::incoming'):
            continue
        for bb, t in f.calls():
            if callee_is(t, 'Sink::poll_ready', 'Sink::start_send', 'Sink::poll_flush', 'Sink::poll_close', 'Stream::poll_next') and 'Fuse<' in (t.get('self_ty') or ''):
                sites.append((f, bb, t))
    R.count('transport_call_sites', len(sites))
    if len(sites) < 10:
        raise CannotDecide('only %d transport call sites found (floor 10)' % len(sites))
    # accessors that return the raw transport result are replaced by their callers (the error is handled there)
    eff = []
    for f, bb, t in sites:
        meth = strip_generics(t['callee']).split('::')[-1]
        rets = P._local_whole(f, 0)
        if result_of(P, rets, ('call', f.id, bb)):
            callers = [(g, b2, t2) for g in F.fns.values() for b2, t2 in g.calls() if F.callee_fn(t2) is f]
            if callers:
                for g, b2, t2 in callers:
                    eff.append((g, b2, t2, meth))
                continue
        eff.append((f, bb, t, meth))
    R.count('effective_transport_uses', len(eff))
    # every ChannelError built outside its own conversion impls: which call produced the error it wraps?
    tagged = {}
    for f, i, j, s in F.all_aggregates('ChannelError'):
        if s['rv']['adt'] != 'ChannelError':
            continue
        item = F.enclosing_item(f)
        if item is not None and item.impl_of and item.impl_of.get('self_head') == 'ChannelError':
            continue
        v = s['rv']['variant']
        for r, p in P.root(P._field(('agg', f.id, i, j), 0, 0), through_params='closures', inline=False):
            ru = P.unbound(r)
            if ru[0] == 'call':
                tagged.setdefault((ru[1], ru[2]), []).append((v, True, f, s))
    # a variant constructor handed to map_err as a function: `.map_err(Arc::new).map_err(ChannelError::Ready)` builds no aggregate in this crate
    for f in F.fns.values():
        if F.is_derived(f):
            continue
        for bb, t in f.calls():
            if not callee_is(t, 'Poll::map_err', 'Result::map_err') or len(t['args']) < 2 or t['args'][1].get('k') != 'const':
                continue
            fid = t['args'][1].get('fn_id') or ''
            if '::ChannelError::' not in '::' + fid or '{constructor' not in fid:
                continue
            v = fid.split('::{constructor')[0].split('::')[-1]
            for r, p in P.root(P.operand(f, t['args'][0], at=bb), through_params='closures', inline=False):
                ru = P.unbound(r)
                if ru[0] == 'call':
                    tagged.setdefault((ru[1], ru[2]), []).append((v, True, f, None))
    per_request = None
    for f, bb, t, meth in eff:
        want = TAG[meth]
        got = tagged.get((f.id, bb), [])
        side = 'client' if in_module(f, 'client') else 'server'
        if not got:
            if meth == 'start_send' and side == 'client' and per_request is None:
                per_request = (f, bb, t)   # candidate for the per-request send failure; checked below
                continue
            R.ob('C09.tag', (side, F.enclosing_item(f).npath, meth, 'error is tagged'), False,
                 'the error of this transport operation is not wrapped in a ChannelError naming the activity', [f.loc(t)])
            continue
        ok = all(v == want and a for v, a, _, _ in got)
        R.ob('C09.tag', (side, F.enclosing_item(f).npath, meth, 'tag = ' + want), ok,
             'the error of %s is reported as ChannelError::%s wrapping that error' % (meth, want), [f.loc(t)], 'found %s' % [v for v, _, _, _ in got])

    # ------------------------------------------------------------------ variant-preserving conversions
    ce_variants = [v['name'] for v in F.adts['ChannelError']['variants']]
    # local fieldless "tag" enums with the same variant names as ChannelError (a refactoring may route conversions through one)
    tag_enums = {p_ for p_, a_ in F.adts.items() if a_['kind'] == 'Enum' and p_.split('::')[-1] != 'ChannelError'
                 and sorted(v['name'] for v in a_['variants']) == sorted(ce_variants) and all(not v['fields'] for v in a_['variants'])}
    is_tagged = lambda adt: adt == 'ChannelError' or adt in tag_enums or any(adt.endswith('::' + t_.split('::')[-1]) or t_.endswith('::' + adt) for t_ in tag_enums)
    conv = [f for f in F.fns.values() if f.impl_of and f.impl_of.get('self_head') == 'ChannelError' and not F.is_derived(f)]
    arms_in = {}
    for f in conv:
        arms_in[f.id] = 0
        # the value switched on: the function's ChannelError (or tag) parameter
        def pred(x, f=f):
            return any(r[0] == 'param' and r[1] == f.id and (('ChannelError' in f.local_ty(r[2])) or any(t_.split('::')[-1] in f.local_ty(r[2]) for t_ in tag_enums)) for r, _ in P.root(x))
        for i, j, s in f.stmts():
            rv = s['rv']
            if rv['k'] != 'agg' or not rv.get('variant') or rv['variant'] not in ce_variants or not is_tagged(rv.get('adt') or ''):
                continue
            v = rv['variant']
            if rv['adt'] == 'ChannelError':
                arms_in[f.id] += 1
            R.ob('C09.conv', ('ChannelError::' + f.npath.split('::')[-1], rv['adt'].split('::')[-1], v), bool(guarded_by_variant(F, P, f, i, pred, [v])),
                 '%s keeps the activity tag (%s stays %s)' % (f.npath.split('::')[-1], v, v), [f.loc(s)])
        # conversions written with constructor functions as values (`.map(Ready).map_err(Ready)`)
        for bb, t in f.calls():
            if callee_is(t, 'Result::map', 'Result::map_err', 'Option::map') and len(t['args']) > 1 and t['args'][1].get('k') == 'const':
                fnp = t['args'][1].get('fn') or ''
                if 'ChannelError::' in fnp:
                    v = fnp.split('::')[-1]
                    arms_in[f.id] += 1
                    R.ob('C09.conv', ('ChannelError::' + f.npath.split('::')[-1], v, strip_generics(t['callee']).split('::')[-1]), bool(guarded_by_variant(F, P, f, bb, pred, [v])),
                         '%s keeps the activity tag (%s stays %s)' % (f.npath.split('::')[-1], v, v), [f.loc(t)])
    # every conversion entry point rebuilds the error arm by arm, itself or through private helpers of the type: each reaches a construction per variant
    entry = [f for f in conv if (f.vis or '').startswith('Public') or 'DefId(0:0 ~' in (f.vis or '') or (f.impl_of.get('trait') or '').endswith('Clone')]   # pub / pub(crate) / Clone
    n_entry = 0
    for f in entry:
        rets = str(f.local_ty(0))
        if 'ChannelError' not in rets:
            continue
        n_entry += 1
        reach_ = [g for g in reachable_local_fns(F, f, depth=3) if g.id in arms_in]
        total = sum(arms_in[g.id] for g in reach_)
        R.ob('C09.conv', ('ChannelError::' + f.npath.split('::')[-1], 'rebuilds every variant'), total >= len(ce_variants),
             'the conversion constructs its result per variant (directly or through a private helper), each construction checked above', [f.loc(f.d)], 'constructions reachable: %d' % total)
        # a tag handed to a helper is one computed from the error, not a constant
        for g in reach_:
            for bb, t in g.calls():
                h = F.callee_fn(t)
                if h is None or h.id not in arms_in:
                    continue
                for k_, a_ in enumerate(t['args']):
                    if any(t_.split('::')[-1] in h.local_ty(k_ + 1) for t_ in tag_enums):
                        rs_ = P.root(P.operand(g, a_, at=bb), inline=False)
                        okt = bool(rs_) and all(P.unbound(x)[0] in ('call', 'param') for x, _ in rs_)
                        R.ob('C09.conv', ('ChannelError::' + g.npath.split('::')[-1], 'tag passed on is the one taken from the error'), okt,
                             'the activity tag given to the rebuilding helper comes from the error being converted (not a constant)', [g.loc(t)])
    if n_entry < 3:
        raise CannotDecide('only %d ChannelError conversion entry points found (floor 3)' % n_entry)

    # ------------------------------------------------------------------ per-request send failure
    poll = client_dispatch_poll(F)
    reach = reachable_local_fns(F, poll)
    table = Table(F, 'client')
    R.ob('C09.send', ('dispatch poll', 'request write site'), per_request is not None, 'the dispatch writes requests through one untagged start_send whose failure is handled per request', [poll.loc(poll.d)])
    if per_request is not None:
        f, bb, t = per_request
        users = [(f, bb, t)]
        for g, b2, t2 in users:
            callterm = ('call', g.id, b2)
            pred = lambda x: result_of(P, x, callterm)
            comp = [(b3, t3) for b3, t3 in g.calls() if F.callee_fn(t3) is not None and F.callee_fn(t3) in table.methods
                    and table._has(F.callee_fn(t3), 'oneshot::Sender::send') and guarded_by_variant(F, P, g, b3, pred, ['Err'])]
            R.ob('C09.send', ('dispatch poll', 'failed write fails that call'), len(comp) == 1,
                 'on the Err edge of the request write the dispatch completes a table entry', [g.loc(t3) for _, t3 in comp] or [g.loc(t2)])
            for b3, t3 in comp:
                # value is Err(RpcError::Send(..)) carrying the write error; key is the request just written
                ok = False
                for a in t3['args'][1:]:
                    for r, p in P.root(P.operand(g, a, at=b3)):
                        if r[0] == 'agg' and P._agg_rv(r)['variant'] == 'Err':
                            inner = P.root(P._field(r, 0, 0))
                            ok = bool(inner) and all(x[0] == 'agg' and P._agg_rv(x)['variant'] == 'Send' and path_matches(P._agg_rv(x)['adt'], 'client::RpcError') for x, _ in inner)
                R.ob('C09.send', ('dispatch poll', 'with RpcError::Send'), ok, 'the call whose request could not be written resolves with RpcError::Send', [g.loc(t3)])
            # not propagated as a channel error: no return alternative carries this call's error
            rets = P.root(P._local_whole(g, 0))
            leak = [1 for r, p in rets if P.unbound(r) == callterm]
            R.ob('C09.send', ('dispatch poll', 'write failure is not terminal'), not leak,
                 'failing to write one request does not end the dispatch: the error never reaches the function\'s result', [g.loc(t2)])

    # ------------------------------------------------------------------ Shutdown mapping
    def on_error_of(g, i, is_source):
        """is the statement at block i of body g executed exactly when a result satisfying is_source(term) is an error: on its Err edge, or inside a
        closure handed to map_err / unwrap_or_else / or_else on it?"""
        if g.kind == 'Closure':
            for a_ in P.closure_sites().get(g.id, []):
                pf = F.fns[a_[1]]
                dst = pf.blocks[a_[2]]['stmts'][a_[3]]['pl']['l']
                for bb, t in pf.calls():
                    if callee_is(t, 'Result::map_err', 'Result::unwrap_or_else', 'Result::or_else') and any(x['k'] in ('move', 'copy') and x['pl']['l'] == dst for x in t['args'][1:]):
                        if is_source(P.operand(pf, t['args'][0], at=bb)):
                            return True
        if guarded_by_variant(F, P, g, i, is_source, ['Err', 'Break']):
            return True
        from .common import guarded_by_bool
        is_err = lambda x: any(P.is_call(r, 'Result::is_err') and is_source(P.args_of(r)[0]) for r, _ in P.root(x, inline=False))
        is_ok = lambda x: any(P.is_call(r, 'Result::is_ok') and is_source(P.args_of(r)[0]) for r, _ in P.root(x, inline=False))
        return bool(guarded_by_bool(F, P, g, i, is_err, True) or guarded_by_bool(F, P, g, i, is_ok, False))

    sh = list(F.all_aggregates('client::RpcError', 'Shutdown'))
    call = F.inherent('client::Channel', 'call')
    cb = F.with_descendants(call)
    in_call = [(g, i, s) for g, i, j, s in sh if any(g.id == x.id for x in cb)]
    awaited_send = lambda x: bool(P.root(x)) and all(P.is_call(r, 'mpsc::Sender::send') and ('t', 'await') in p for r, p in P.root(x))
    # ... or under `to_dispatch.is_closed()`: a fail-fast check before enqueueing is the same fact (the dispatch dropped its receiver) learnt earlier
    from .common import guarded_by_bool as _gbb
    queue_closed = lambda x: bool(P.root(x, inline=False)) and all(P.is_call(r, 'mpsc::Sender::is_closed') for r, _ in P.root(x, inline=False))
    ok = bool(in_call) and any(on_error_of(g, i, awaited_send) for g, i, s in in_call) \
        and all(on_error_of(g, i, awaited_send) or bool(_gbb(F, P, g, i, queue_closed, True)) for g, i, s in in_call)
    R.ob('C09.shutdown', ('Channel::call', 'enqueue failure -> Shutdown'), ok, 'a call made after the dispatch ended fails fast with RpcError::Shutdown', [g.loc(s) for g, i, s in in_call] or [call.loc(call.d)])
    resp = [f for f in F.fns.values() if f.impl_of and f.impl_of.get('self_head') and path_matches(f.impl_of['self_head'], 'client::ResponseGuard') and not (f.impl_of.get('trait'))]
    okr = False
    awaited = lambda x: any(('t', 'await') in p for _, p in P.root(x))
    for m in resp:
        for b in F.with_descendants(m):
            for i, j, s in b.aggregates('client::RpcError', 'Shutdown'):
                okr = okr or on_error_of(b, i, awaited)
    R.ob('C09.shutdown', ('ResponseGuard::response', 'dropped dispatcher -> Shutdown'), okr, 'a call whose completion sender was dropped (dispatch gone) resolves with Shutdown, not a hang', [m.loc(m.d) for m in resp][:1])

    # ------------------------------------------------------------------ server: stop at first error, Drop aborts
    S = Server(F, P)
    ex = stops_at_first_error(ctx, 'C09.server')
    drop = [m for m in S.table.methods if m.impl_of and (m.impl_of.get('trait') or '').endswith('Drop')]
    ok = len(drop) == 1
    if ok:
        d = drop[0]
        its = [(bb, t) for bb, t in d.calls() if callee_is(t, 'HashMap::values', 'HashMap::iter', 'HashMap::drain', 'HashMap::values_mut', 'HashMap::iter_mut')]
        ab = [(g, bb, t) for g in F.with_descendants(d) for bb, t in g.calls() if callee_is(t, 'AbortHandle::abort')]
        ok = len(its) == 1 and len(ab) == 1
        if ok:
            recv = P.root(P.operand(d, its[0][1]['args'][0], at=its[0][0]))
            ok = all(r == ('param', d.id, 1) and P.fpath(p) == (S.table.map_field,) for r, p in recv) and bool(recv)
            g, bb, t = ab[0]
            # abort is applied to the element handed to the iteration closure / loop variable
            ar = P.root(P.operand(g, t['args'][0], at=bb))
            ok = ok and bool(ar) and all((r[0] == 'param' and F.fns[r[1]].kind == 'Closure') or P.is_call(r, 'Iterator::next') for r, _ in ar)
    R.ob('C09.server', ('Drop for server InFlightRequests', 'aborts every running handler'), ok, 'dropping a channel aborts all of its still-running handlers (iterates the whole table)', [drop[0].loc(drop[0].d)] if drop else [])
    # server errors surface as items of the stream: the channel's poll_next never panics on a transport error
    R.count('functions_analysed', len(reach) + len(conv) + 6)

    # ------------------------------------------------------------------ a transport failure is never swallowed (E-SHAPE)
    from engine.shape import STAR, poll_outcome, is_ready_ok
    from .shape_common import find_cell_accessors, run_jobs, server_chains, chain_name
    dpoll = client_dispatch_poll(F)
    acc, fields = find_cell_accessors(F, P, 'client::RequestDispatch', lambda t: t.startswith('std::option::Option<') and 'ChannelError' in t)
    cells = [((sorted(fields)[0], 'None'),), ((sorted(fields)[0], ('Some', STAR)),)] if fields else [()]
    rp = S.requests_poll
    chains = [c for c in server_chains(F) if len(c) <= (2 if ctx.tier == 'quick' else 3)]
    jobs = [{'key': 'client', 'entry': dpoll.id, 'aut': ('custom', FailAut), 'acc': acc, 'cells': cells}]
    for ch in chains:
        jobs.append({'key': chain_name(ch), 'entry': rp.id, 'aut': ('custom', FailAut), 'chain': ch})
    if fields:
        jobs.append({'key': 'terminal', 'entry': dpoll.id, 'aut': ('custom', TerminalAut), 'acc': acc, 'cells': [((sorted(fields)[0], ('Some', STAR)),)]})
    res = run_jobs(F, jobs)
    if fields:
        r = res['terminal']
        R.count('states_explored', r['stats'].get('states', 0))
        ops = sorted({s_ for k in r['viol'] if k[0] == 'TRANSPORT_OPERATION_AFTER_TERMINAL_ERROR' for s_ in r['viol'][k]})
        R.ob('C09.terminal', ('client dispatch poll', 'no transport operation once a terminal error is stored'), not ops,
             'an activation that starts with a stored terminal error performs no transport operation: nothing can replace the stored error by another activity\'s error or '
             'keep the dispatch from ending (and a failed transport is not touched again)', ops or [dpoll.loc(dpoll.d)])
        rets = sorted({repr(ret)[:60] for (ret, e, lab) in r['exits'] if isinstance(ret, tuple) and ret[0] == 'Ready' and not (isinstance(ret[1], tuple) and ret[1][0] == 'Err')})
        n_err = sum(1 for (ret, e, lab) in r['exits'] if isinstance(ret, tuple) and ret[0] == 'Ready' and isinstance(ret[1], tuple) and ret[1][0] == 'Err')
        R.ob('C09.terminal', ('client dispatch poll', 'a stored terminal error ends the dispatch with an error'), not rets and n_err >= 1,
             'an activation that starts with a stored terminal error completes only with Err', [dpoll.loc(dpoll.d)], 'other completions: %s' % rets)
    else:
        R.ob('C09.terminal', ('client dispatch poll', 'no transport operation once a terminal error is stored'), False, 'the dispatch stores its terminal error in an Option cell', [dpoll.loc(dpoll.d)])
    # end-of-stream at any point: once the peer ended the read side the dispatch ends (outstanding calls then fail with Shutdown instead of hanging
    # until their deadlines, later calls fail fast) — same exploration as C10.done
    from .C10 import DoneAut
    d_ = run_jobs(F, [{'key': 'done', 'entry': dpoll.id, 'aut': ('custom', DoneAut), 'acc': acc, 'cells': cells}])['done']
    pend_after_eof = [e[0] for (ret, e, lab) in d_['exits'] if ret == 'Pending' and e[0][0] == 'Closed' and not any(isinstance(v, tuple) and v and v[0] == 'Some' for _, v in e[1])]
    R.ob('C09.eof', ('client dispatch poll', 'end-of-stream ends the dispatch'), not pend_after_eof,
         'once the transport read returned Ready(None) the dispatch does not go back to waiting: calls outstanding at end-of-stream resolve with a connection/shutdown error, none hangs',
         [dpoll.loc(dpoll.d)], 'Pending exits after the read side ended: %s' % sorted(set(pend_after_eof), key=repr)[:4])
    # "a failing close is reported": the only way the dispatch ends well while the peer has not ended the read side is after poll_close returned Ready(Ok) in that
    # very activation (the close is carried through on every activation until it completes: a close that was merely started — a flag set when it begins — and
    # then assumed done would hide a failure of any later close poll)
    oks_ = [(ret, e[0]) for (ret, e, lab) in d_['exits'] if isinstance(ret, tuple) and ret[0] == 'Ready' and isinstance(ret[1], tuple) and ret[1][0] == 'Ok']
    badok_ = sorted({a for ret, a in oks_ if not (a[0] == 'Closed' or a[1])}, key=repr)
    R.ob('C09.close', ('client dispatch poll', 'ends well only after the close completed'), bool(oks_) and not badok_,
         'the dispatch completes with Ok only if the read side ended or poll_close returned Ready(Ok) in this activation: an error of a later close poll cannot be skipped', [dpoll.loc(dpoll.d)],
         'offending (R last, closed, table empty): %s' % badok_)
    for key, entry, name in [('client', dpoll, 'client dispatch poll')] + [(chain_name(ch), rp, 'Requests<%s>::poll_next' % chain_name(ch)) for ch in chains]:
        r = res[key]
        R.count('states_explored', r['stats'].get('states', 0))
        bad = []
        n_fail = 0
        for (ret, e, lab) in r['exits']:
            if not (isinstance(e[0], str) and e[0].startswith('F:')):
                continue
            n_fail += 1
            is_err = 'Err' in repr(ret)
            terminal = any(isinstance(v, tuple) and v and v[0] == 'Some' for _, v in e[1])
            if not (is_err or terminal):
                bad.append((repr(ret)[:40], e[0]))
        R.ob('C09.report', (name, 'a failed transport operation ends the activation with an error'), not bad and n_fail >= 1,
             'after a read, readiness, flush or close failure (or a failed cancel/response write) the entry point returns the error (or is delivering it): the failure is never dropped while work continues',
             [entry.loc(entry.d)], 'exits that continue after a failure (return shape, which operation failed): %s' % sorted(set(bad))[:6])


class TerminalAut:
    """explored from states whose terminal-error cell is Some: any transport operation is a violation"""
    name = 'terminal'

    def init(self):
        return None

    def step(self, aut, ev, shape, site, X):
        if ev[0] in ('W', 'R'):
            X.violation(('TRANSPORT_OPERATION_AFTER_TERMINAL_ERROR', ev[1] if len(ev) > 1 else ev[0]), site)
        return aut


class FailAut:
    """sticky: which transport operation failed in this activation (None if none).  A refused item (start_send Err) counts only where
    the error is a channel error: cancel writes on the client, response writes on the server — i.e. every start_send except the
    client's request write, which is recognised by the Q event that immediately precedes it."""
    name = 'fail'

    def init(self):
        return None

    def step(self, aut, ev, shape, site, X):
        if isinstance(aut, str) and aut.startswith('F:'):
            return aut
        if ev[0] == 'R' and poll_outcome_is_err(shape):
            return 'F:read'
        if ev[0] == 'W':
            if ev[1] in ('poll_ready', 'poll_flush', 'poll_close'):
                if isinstance(shape, tuple) and shape[0] == 'Ready' and isinstance(shape[1], tuple) and shape[1][0] == 'Err':
                    return 'F:' + ev[1]
                return None if aut == 'q' and ev[1] != 'poll_ready' else aut
            if ev[1] == 'start_send':
                if isinstance(shape, tuple) and shape[0] == 'Err' and aut != 'q':
                    return 'F:start_send'
                return None
        if ev[0] == 'Q' and 'Some' in repr(shape):
            return 'q'      # the next start_send is the per-request write (its failure fails only that call)
        if ev[0] in ('K', 'P') and 'Some' in repr(shape):
            return None
        return aut


def poll_outcome_is_err(shape):
    return isinstance(shape, tuple) and shape and shape[0] == 'Ready' and 'Err' in repr(shape)
