"""Binders shared by the rule sets: resources are identified by type and role, entry points by
public API / trait impl; helper functions of tarpc are never named."""
from engine.facts import CannotDecide, callee_is, strip_generics, path_matches, is_tracing, ty_head, strip_refs
from engine import cfg


def names(f):
    return {strip_generics(t['callee']) for _, t in f.calls() if t.get('callee')}


def calls_any(F, f, *names_, deep=True):
    fs = F.with_descendants(f) if deep else [f]
    for g in fs:
        for _, t in g.calls():
            if callee_is(t, *names_):
                return True
    return False


class Table:
    """An in-flight request table: ADT with a `HashMap<u64, Data>` field and a `DelayQueue<u64>` field."""

    def __init__(self, F, side):
        self.F = F
        self.side = side
        cands = []
        for p, a in F.adts.items():
            if a['kind'] != 'Struct':
                continue
            fields = a['variants'][0]['fields']
            m = [f for f in fields if ty_head(f[1])[0].endswith('HashMap') and ty_head(f[1])[1][:1] and ty_head(f[1])[1][0] in ('u64', 'u32', 'u16', 'u8', 'usize', 'u128', 'i64', 'i32')]
            d = [f for f in fields if ty_head(f[1])[0].endswith('DelayQueue')]
            if len(m) == 1 and len(d) == 1:
                data_ty = ty_head(ty_head(m[0][1])[1][1])[0]
                data = F.adts.get(data_ty)
                if not data:
                    continue
                dts = [x[1] for x in data['variants'][0]['fields']]
                is_client = any('oneshot::Sender' in t for t in dts)
                is_server = any('AbortHandle' in t for t in dts)
                if (side == 'client' and is_client) or (side == 'server' and is_server):
                    cands.append((p, a, m[0][0], d[0][0], data_ty, data))
        if len(cands) != 1:
            raise CannotDecide('%s in-flight table: %d candidate ADTs' % (side, len(cands)))
        self.path, self.adt, self.map_field, self.timer_field, self.data_path, self.data = cands[0]
        self.key_ty = [ty_head(f[1])[1][0] for f in self.adt['variants'][0]['fields'] if f[0] == self.map_field][0]
        self.methods = [f for f in F.fns.values() if f.kind == 'AssocFn' and f.impl_of and f.impl_of.get('self_head') == self.path
                        and not F.is_derived(f)]
        if not self.methods:
            raise CannotDecide('%s table has no methods' % side)

    def data_field(self, frag):
        c = [x[0] for x in self.data['variants'][0]['fields'] if frag in x[1]]
        if len(c) != 1:
            raise CannotDecide('%s table data field of type %s: %d candidates' % (self.side, frag, len(c)))
        return c[0]

    def bodies(self, m):
        """the method, its closures, and the private helper methods of the same table it calls (transitively): extracting a helper
        inside the table does not hide anything from the rules"""
        out, seen, work = [], set(), [m]
        while work:
            f = work.pop()
            if f.id in seen:
                continue
            seen.add(f.id)
            for g in self.F.with_descendants(f):
                if g.id not in {x.id for x in out}:
                    out.append(g)
                for _, t in g.calls():
                    c = self.F.callee_fn(t)
                    if c is None or c.id in seen or c.id == m.id:
                        continue
                    if c.impl_of and c.impl_of.get('self_head') == self.path and not (c.vis or '').startswith('Public'):
                        work.append(c)
                    elif c.impl_of and c.impl_of.get('self_head') == self.data_path and not c.impl_of.get('trait'):
                        work.append(c)    # a method of the entry type (e.g. `RequestData::complete`)
                    elif self._takes_table_part(c, t):
                        work.append(c)    # a free helper that is handed the table's map or timer queue
        return out

    def _has(self, m, *n):
        return any(callee_is(t, *n) for g in self.bodies(m) for _, t in g.calls())

    def _takes_table_part(self, c, t=None):
        """a free function (not a method of some other type) one of whose parameters is the table's map or timer queue type"""
        if c.impl_of and c.impl_of.get('self_head'):
            return False
        if c.kind not in ('Fn', 'AssocFn'):
            return False
        tys = [c.local_ty(k) for k in range(1, c.argc + 1)]
        return any(('HashMap<' in ty or 'DelayQueue<' in ty) for ty in tys)

    def is_helper(self, f):
        """closures, private methods of the table, and free helpers that are handed the table's map / timer queue: parameters of these are followed
        into their callers by the provenance rules"""
        if f.kind == 'Closure':
            return True
        if f.impl_of and f.impl_of.get('self_head') == self.path and not (f.vis or '').startswith('Public'):
            return True
        if f.impl_of and f.impl_of.get('self_head') == self.data_path and not f.impl_of.get('trait'):
            return True
        return self._takes_table_part(f)

    def inserting(self):
        return [m for m in self.methods if self._has(m, 'hash_map::VacantEntry::insert', 'HashMap::insert', 'hash_map::Entry::or_insert', 'hash_map::Entry::or_insert_with')]

    def removing(self):
        return [m for m in self.methods if self._has(m, 'HashMap::remove', 'HashMap::remove_entry', 'HashMap::drain', 'hash_map::OccupiedEntry::remove',
                                                     'hash_map::OccupiedEntry::remove_entry', 'HashMap::clear', 'HashMap::retain')]

    def expiring(self):
        return [m for m in self.methods if self._has(m, 'DelayQueue::poll_expired')]

    def one(self, ms, role):
        if len(ms) > 1:
            # private helpers are judged through the entry points that call them
            ms = [m for m in ms if not self.is_helper(m)] or ms
        if len(ms) != 1:
            raise CannotDecide('%s table: %d methods in role %s' % (self.side, len(ms), role))
        return ms[0]


def client_dispatch_poll(F):
    return F.trait_method('Future', 'client::RequestDispatch', 'poll')


def reachable_local_fns(F, entry, depth=8):
    """bodies reachable from entry through resolved local calls and closures built inside them."""
    seen, work = {entry.id: entry}, [(entry, 0)]
    while work:
        f, d = work.pop()
        nxt = []
        for _, t in f.calls():
            c = F.callee_fn(t)
            if c is not None:
                nxt.append(c)
        for c in F.children.get(f.id, ()):
            if c.kind == 'Closure':
                nxt.append(c)
        for c in nxt:
            if c.id not in seen and d < depth:
                seen[c.id] = c
                work.append((c, d + 1))
    return list(seen.values())


def call_bodies(F, fn):
    """bodies of an async fn: the fn itself and the coroutines/closures nested in it"""
    return F.with_descendants(fn)


def find_calls(F, fns, *names_):
    out = []
    for f in fns:
        for bb, t in f.calls():
            if callee_is(t, *names_):
                out.append((f, bb, t))
    return out


def recv_ty(t):
    """type of the receiver (first argument) of a call, references / Pin stripped"""
    a = t.get('arg_tys') or []
    return strip_refs(a[0]) if a else ''


def same_root(P, ta, tb):
    """Do two terms have a common (root, path-prefix) alternative? returns list of common roots"""
    ra = P.root(ta)
    rb = P.root(tb)
    out = []
    for (x, px) in ra:
        for (y, py) in rb:
            if x == y:
                out.append((x, px, py))
    return out


def norm_path(p):
    """value-level path: drop transparent steps"""
    return tuple(s for s in p if s[0] != 't')


def guarded_by_variant(F, P, f, bb, res_term_pred, variant_names):
    """Is block bb dominated by the `variant` edge of a switch on the discriminant of a place whose
    provenance satisfies res_term_pred?  Returns list of guarding switch blocks."""
    out = []
    for i, b in enumerate(f.blocks):
        if b['cleanup'] or b['term']['k'] != 'switch':
            continue
        d = b['term']['discr']
        if d['k'] not in ('copy', 'move'):
            continue
        t = P.operand(f, d)
        if t[0] != 'discr':
            continue
        if not res_term_pred(t[1]):
            continue
        # which targets correspond to the named variants?
        ety = None
        for s in b['stmts']:
            if s['rv']['k'] == 'discr' and s['pl']['l'] == d['pl']['l']:
                ety = s['rv'].get('ty')
        if ety is None:
            # discriminant read in an earlier block
            for _, _, s in f.stmts():
                if s['rv']['k'] == 'discr' and s['pl']['l'] == d['pl']['l'] and not s['pl']['p']:
                    ety = s['rv'].get('ty')
        vals = variant_values(F, ety, variant_names)
        if vals is None:
            continue
        targets = dict((v, x) for v, x in b['term']['targets'])
        all_vals = all_variant_values(F, ety)
        tblocks = set()
        for v in vals:
            if v in targets:
                tblocks.add(targets[v])
            else:
                # falls to otherwise; only exact if every other value is listed
                others = [x for x in all_vals if x not in targets]
                if set(others) <= set(vals):
                    tblocks.add(b['term']['otherwise'])
        other_blocks = set(x for v, x in b['term']['targets'] if v not in vals)
        if not set(all_vals) - set(vals) <= set(targets):
            other_blocks.add(b['term']['otherwise'])
        for tb in tblocks:
            if tb in other_blocks:
                continue
            if cfg.dominates(f, tb, bb):
                out.append(i)
    return out


STD_DISCR = {
    'Option': {'None': 0, 'Some': 1},
    'Result': {'Ok': 0, 'Err': 1},
    'Poll': {'Ready': 0, 'Pending': 1},
    'ControlFlow': {'Continue': 0, 'Break': 1},
    'Entry': {'Occupied': 0, 'Vacant': 1},
}


def all_variant_values(F, ety):
    if not ety:
        return []
    h = ty_head(strip_refs(ety))[0]
    if h in F.enums:
        return [int(v[2]) for v in F.enums[h]]
    short = h.split('::')[-1]
    if short in STD_DISCR:
        return list(STD_DISCR[short].values())
    return []


def variant_values(F, ety, names_):
    if not ety:
        return None
    h = ty_head(strip_refs(ety))[0]
    if h in F.enums:
        m = {v[0]: int(v[2]) for v in F.enums[h]}
    else:
        m = STD_DISCR.get(h.split('::')[-1])
    if not m:
        return None
    out = [m[n] for n in names_ if n in m]
    return out or None


def loc(f, x):
    return f.loc(x)


# ---------------------------------------------------------------------------------------------
# time arithmetic shapes shared by C05 / C06 / C07 / C16
DURATION_SINCE = ('Instant::duration_since', 'Instant::saturating_duration_since', 'Instant::checked_duration_since')
MINLIKE = ('cmp::Ord::min', 'cmp::min', 'Duration::min', 'cmp::Ord::clamp')


def remaining_time(P, term, allow_min=True):
    """Matches `deadline.duration_since(Instant::now())` (or its saturating / checked equivalents),
    optionally bounded from above by `min(_, const)`.  Returns (ok, deadline_terms, clamped, detail)."""
    deadlines, clamped, det = [], False, []
    roots = P.root(term)
    if not roots:
        return False, [], False, 'no source'
    ok = True
    for r, p in roots:
        if norm_path(p) and not all(s in (('v', 'Some'), ('f', 0)) for s in norm_path(p)):
            ok = False
            det.append('projected %s' % (list(norm_path(p)),))
            continue
        if P.is_call(r, *MINLIKE) and allow_min:
            args = P.args_of(r)
            consts = [a for a in args if all(x[0] == 'const' for x, _ in P.root(a))]
            non = [a for a in args if a not in consts]
            if len(non) != 1 or not consts:
                ok = False
                det.append('min() without a constant bound')
                continue
            ok2, d2, _, det2 = remaining_time(P, non[0], allow_min=False)
            clamped = True
            if not ok2:
                ok = False
                det.append(det2)
            deadlines += d2
            continue
        if P.is_call(r, *DURATION_SINCE):
            args = P.args_of(r)
            nowr = P.root(args[1])
            if not (nowr and all(P.is_call(x, 'Instant::now') for x, _ in nowr)):
                ok = False
                det.append('subtrahend is not Instant::now()')
            if any(P.is_call(x, 'Instant::now') for x, _ in P.root(args[0])):
                ok = False
                det.append('minuend is Instant::now() (operands swapped)')
            deadlines.append(args[0])
            continue
        if r[0] == 'const' or (P.unbound(r)[0] == 'call' and P.is_call(r, 'Duration::from_secs', 'Duration::from_millis', 'Duration::new')):
            # fallback constant of a checked form (unwrap_or(ZERO)): fine only next to a real form
            det.append('const alternative %s' % P.describe(r))
            continue
        ok = False
        det.append('not a remaining-time expression: %s' % P.describe(r))
    if not deadlines:
        ok = False
    return ok, deadlines, clamped, '; '.join(det)


def guarded_by_bool(F, P, f, bb, pred, value):
    """Is block bb dominated by the `value` (True/False) edge of a switch on a bool whose provenance
    satisfies pred(term)?  Handles `Not`.  Returns list of guarding switch blocks."""
    out = []
    for i, b in enumerate(f.blocks):
        if b['cleanup'] or b['term']['k'] != 'switch':
            continue
        d = b['term']['discr']
        if d['k'] not in ('copy', 'move'):
            continue
        if f.local_ty(d['pl']['l']) != 'bool' and not d['pl']['p']:
            continue
        t = P.operand(f, d, at=i)
        want = value
        n = 0
        while t[0] == 'un' and t[1] == 'Not' and n < 4:
            t = t[2]
            want = not want
            n += 1
        if not pred(t):
            continue
        targets = dict((v, x) for v, x in b['term']['targets'])
        # bool switch: [[0, bbFalse]] otherwise bbTrue
        false_b = targets.get(0)
        true_b = b['term']['otherwise'] if 1 not in targets else targets[1]
        if false_b is None:
            false_b = b['term']['otherwise']
        tb = true_b if want else false_b
        ob = false_b if want else true_b
        if tb == ob:
            continue
        if cfg.dominates(f, tb, bb) and not (tb == bb and False):
            out.append(i)
    return out


def sends_cancel_id(F, P, f, bb, t, depth=3):
    """If the call t (in f at bb) ends up sending an id on an mpsc::UnboundedSender<u64> (directly or via local helpers, up to `depth` levels),
    returns the list of id terms sent, expressed in f's terms; else []."""
    if callee_is(t, 'mpsc::UnboundedSender::send'):
        return [P.operand(f, t['args'][1], at=bb)]
    out = []
    c = F.callee_fn(t)
    if c is not None and depth > 0 and not c.coroutine:
        args = [P.operand(f, a, at=bb) for a in t['args']]
        for b2, t2 in c.calls():
            for term in sends_cancel_id(F, P, c, b2, t2, depth - 1):
                out.append(P.subst(term, c.id, args))
    return out


def result_of(P, x, callterm, through=()):
    """does term x denote (possibly among alternatives) the result of the call `callterm`, looking
    through copies / conversions but without inlining the callee?"""
    if x == callterm:
        return True
    if x[0] == 'phi':
        return any(result_of(P, y, callterm, through) for y in x[1])
    if x[0] in ('ref', 'deref'):
        return result_of(P, x[1], callterm, through)
    if x[0] == 'call':
        name = P.call_name(x) or ''
        if any(name == n or name.endswith('::' + n) for n in ('std::ops::Try::branch', 'std::convert::Into::into', 'std::convert::From::from') + tuple(through)):
            a = P.call_args(x)
            return bool(a) and result_of(P, a[0], callterm, through)
    return False


def in_module(f, mod):
    return f.id.startswith('tarpc::' + mod + '::') or f.id == 'tarpc::' + mod


NEG = {'Lt': 'Ge', 'Le': 'Gt', 'Gt': 'Le', 'Ge': 'Lt', 'Eq': 'Ne', 'Ne': 'Eq'}
SWAP = {'Lt': 'Gt', 'Le': 'Ge', 'Gt': 'Lt', 'Ge': 'Le', 'Eq': 'Eq', 'Ne': 'Ne'}


def cmp_facts(F, P, f, bb):
    """comparison facts (op, a_term, b_term) that hold on entry to block bb because bb is dominated by
    the corresponding edge of a switch on that comparison (`Not` handled)."""
    out = []
    for i, b in enumerate(f.blocks):
        if b['cleanup'] or b['term']['k'] != 'switch':
            continue
        d = b['term']['discr']
        if d['k'] not in ('copy', 'move') or d['pl']['p']:
            continue
        if f.local_ty(d['pl']['l']) != 'bool':
            continue
        t = P.operand(f, d, at=i)
        pol = True
        n = 0
        while t[0] == 'un' and t[1] == 'Not' and n < 4:
            t, pol, n = t[2], not pol, n + 1
        if t[0] == 'call' and callee_is(P.call_term(t), 'PartialOrd::gt', 'PartialOrd::lt', 'PartialOrd::ge', 'PartialOrd::le', 'PartialEq::eq', 'PartialEq::ne'):
            # comparison of non-primitive values (Duration, Instant): a trait call instead of a MIR binary operation
            nm = strip_generics(P.call_term(t)['callee']).split('::')[-1]
            ca = P.call_args(t)
            if len(ca) == 2:
                t = ('bin', {'gt': 'Gt', 'lt': 'Lt', 'ge': 'Ge', 'le': 'Le', 'eq': 'Eq', 'ne': 'Ne'}[nm], ca[0], ca[1])
        if t[0] == 'call':
            # a bool-returning local helper whose result is one comparison (operands come back bound to this call's arguments)
            rs_ = P.root(t)
            if len(rs_) == 1 and not rs_[0][1] and P.unbound(rs_[0][0])[0] == 'bin':
                t = P.unbound(rs_[0][0])
        if t[0] != 'bin' or t[1] not in NEG:
            continue
        targets = dict((v, x) for v, x in b['term']['targets'])
        false_b = targets.get(0, b['term']['otherwise'])
        true_b = targets.get(1, b['term']['otherwise'])
        if false_b == true_b:
            continue
        for edge_b, truth in ((true_b, True), (false_b, False)):
            if cfg.dominates(f, edge_b, bb):
                holds = truth == pol
                op = t[1] if holds else NEG[t[1]]
                out.append((op, t[2], t[3], i))
    return out


def message_send_sites(F, P, fns, variant):
    """call sites (in the given bodies) that hand a `ClientMessage::<variant>` to the transport sink, directly or through a local
    accessor.  Returns [(g, bb, t, agg_term)] where agg_term is the (possibly inlined: 'bound') aggregate that built the message."""
    out = []
    lift = lifter(F, P, fns)
    for g in fns:
        for bb, t in g.calls():
            direct = callee_is(t, 'Sink::start_send') and 'Fuse<' in (t.get('self_ty') or '')
            c = F.callee_fn(t)
            via = c is not None and any(callee_is(t2, 'Sink::start_send') and 'Fuse<' in (t2.get('self_ty') or '') for _, t2 in c.calls())
            if not (direct or via):
                continue
            for a in t['args'][1:]:
                for r, p in P.root(P.operand(g, a, at=bb)):
                    ru = P.unbound(r)
                    if ru[0] == 'agg' and not norm_path(p):
                        rv = P._agg_rv(ru)
                        if path_matches(rv['adt'], 'ClientMessage') and rv['variant'] == variant:
                            out.append((g, bb, t, lift(g, r)))
    return out


def deep_roots(P, term, inline=True, depth=6, _seen=None):
    """roots of a value including, for aggregates, the roots of everything stored inside them"""
    out = []
    if depth == 0:
        return out
    for r, p in P.root(term, inline=inline):
        out.append((r, p))
        ru = P.unbound(r)
        if ru[0] == 'agg':
            rv = P._agg_rv(ru)
            f = P.F.fns[ru[1]]
            for o in rv['ops']:
                sub = P.operand(f, o, at=ru[2])
                if r[0] == 'bound':
                    sub = P.subst(sub, r[2], list(r[3]))
                out += deep_roots(P, sub, inline, depth - 1)
    return out


def sink_delegation(ctx, tag, types):
    """Sink wrappers: each of poll_ready / poll_flush / poll_close of the wrapper calls, exactly once, the operation of the same name on the sink it wraps
    (a field of self), and returns that call's result (errors may be mapped).  Wrappers that implement an operation without an inner sink are skipped
    (e.g. an unbounded queue needs no flushing)."""
    F, P, R = ctx.F, ctx.P, ctx.run
    n = 0
    for ty in types:
        for meth in ('poll_ready', 'poll_flush', 'poll_close'):
            try:
                m = F.trait_method('Sink', ty, meth)
            except CannotDecide:
                continue
            inner = [(bb, t) for bb, t in m.calls() if callee_is(t, 'Sink::poll_ready', 'Sink::poll_flush', 'Sink::poll_close', 'Sink::start_send')]
            if not inner:
                continue
            n += 1
            names_ = sorted({strip_generics(t['callee']).split('::')[-1] for _, t in inner})
            ok = len(inner) == 1 and names_ == [meth]
            if ok:
                bb, t = inner[0]
                recv = P.root(P.operand(m, t['args'][0], at=bb))
                ok = bool(recv) and all(x == ('param', m.id, 1) and P.fpath(p) for x, p in recv)
                rr = deep_roots(P, P._local_whole(m, 0))
                direct = bool(rr) and all(P.unbound(x) == ('call', m.id, bb) for x, _ in rr)
                if ok and not direct:
                    # some path returns without the inner outcome.  If that path is chosen by the wrapper's own state (a flag it keeps), whether the
                    # skip is right depends on how that state is maintained across calls — not decidable by this rule
                    for i_, b_ in enumerate(m.blocks):
                        if b_['cleanup'] or b_['term']['k'] != 'switch' or b_['term']['discr']['k'] not in ('copy', 'move'):
                            continue
                        dr = P.root(P.operand(m, b_['term']['discr'], at=i_))
                        if dr and all(x == ('param', m.id, 1) and P.fpath(p_) for x, p_ in dr):
                            raise CannotDecide('%s::%s skips the wrapped sink\'s %s depending on state the wrapper keeps (self.%s): a stateful wrapper is outside the delegation rule'
                                               % (ty.split('::')[-1], meth, meth, '.'.join(str(z) for z in P.fpath(dr[0][1]))))
                ok = ok and direct
            R.ob(tag, (ty.split('::')[-1], meth, 'delegates to the same operation of the wrapped sink'), ok,
                 '%s of the wrapper performs exactly %s on the sink it wraps and returns its outcome (closing really closes, flushing really flushes)' % (meth, meth),
                 [m.loc(t) for _, t in inner], 'inner operations called: %s' % names_)
    return n


def cancel_always_enqueues(ctx, tag):
    """RequestCancellation (used by the client's call guard and by the server's response guard from their Drop impls): every entry point that queues an id
    does so on every path, with its id parameter, on an unbounded queue — a request to cancel is never dropped on the floor.  The send may sit in a
    private helper of the type (e.g. `cancel` = `let _ = self.try_cancel(id)`)."""
    F, P, R = ctx.F, ctx.P, ctx.run
    ms = [f for f in F.fns.values() if f.impl_of and f.impl_of.get('self_head') and path_matches(f.impl_of['self_head'], 'cancellations::RequestCancellation')
          and not F.is_derived(f) and f.kind == 'AssocFn']
    ids = {m.id for m in ms}

    def always_sends(m, depth=3):
        """-> (ok, unbounded, param index whose value is sent) for method m"""
        sites = []
        for bb, t in m.calls():
            if callee_is(t, 'mpsc::UnboundedSender::send', 'mpsc::Sender::try_send', 'mpsc::Sender::send', 'mpsc::Sender::blocking_send'):
                idr = P.root(P.operand(m, t['args'][1], at=bb))
                k = {r[2] for r, p in idr if r[0] == 'param' and r[1] == m.id and not norm_path(p)}
                sites.append((bb, callee_is(t, 'mpsc::UnboundedSender::send'), k.pop() if len(k) == 1 and len(idr) == len([1 for r, p in idr if r[0] == 'param']) else None))
            else:
                h = F.callee_fn(t)
                if h is not None and h.id in ids and h.id != m.id and depth > 0:
                    okh, unbh, kh = always_sends(h, depth - 1)
                    if okh is not None:
                        k = None
                        if kh is not None and kh - 1 < len(t['args']):
                            idr = P.root(P.operand(m, t['args'][kh - 1], at=bb))
                            ks = {r[2] for r, p in idr if r[0] == 'param' and r[1] == m.id and not norm_path(p)}
                            k = ks.pop() if len(ks) == 1 else None
                        sites.append((bb, unbh and okh, k))
        if not sites:
            return None, False, None
        every = cfg.all_paths_pass(m, 0, cfg.exits(m), {b for b, _, _ in sites})
        ks = {k for _, _, k in sites}
        return every, all(u for _, u, _ in sites), (ks.pop() if len(ks) == 1 else None)

    entries = [m for m in ms if (m.vis or '').startswith('Public') or 'DefId(0:0 ~' in (m.vis or '')]
    n = 0
    for m in entries:
        every, unb, k = always_sends(m)
        if every is None:
            continue
        n += 1
        R.ob(tag, ('RequestCancellation::' + m.npath.split('::')[-1], 'queues the id unconditionally'), bool(every) and unb and k is not None,
             'a requested cancellation is always queued: the id parameter is sent on an unbounded queue on every path (the callers are Drop impls and cannot retry)',
             [m.loc(m.d)], 'unbounded queue: %s; on every path: %s; id is the parameter: %s' % (unb, every, k is not None))
    R.ob(tag, ('RequestCancellation', 'one queueing method'), n >= 1, 'the cancellation handle has an entry point that queues ids', [m.loc(m.d) for m in entries][:2])



def returns_at_most(F, P, g):
    """parameters k of the local function g such that on every return path the value returned is parameter k itself or a value v returned under the
    dominating fact v <= parameter k (a hand-written `min`): g's result never exceeds that argument"""
    sites = []
    for i, j, s_ in g.stmts():
        if s_['pl']['l'] == 0 and not s_['pl']['p'] and s_['rv']['k'] == 'use':
            sites.append((i, P.operand(g, s_['rv']['op'], at=i)))
    if not sites:
        return []
    out = []
    same = lambda x, y: {(P.unbound(r), norm_path(p)) for r, p in P.root(x, inline=False)} == {(P.unbound(r), norm_path(p)) for r, p in P.root(y, inline=False)} and bool(P.root(x, inline=False))
    for k in range(1, g.argc + 1):
        lim = ('param', g.id, k)
        ok = True
        for i, v in sites:
            if same(v, lim):
                continue
            facts = cmp_facts(F, P, g, i)
            if any((op in ('Le', 'Lt') and same(a, v) and same(b, lim)) or (op in ('Ge', 'Gt') and same(b, v) and same(a, lim)) for op, a, b, _ in facts):
                continue
            ok = False
        if ok:
            out.append(k)
    return out


MAP_REMOVALS = ('HashMap::remove', 'HashMap::remove_entry', 'hash_map::OccupiedEntry::remove', 'hash_map::OccupiedEntry::remove_entry')


def removal_key_terms(P, g, bb, t):
    """key term(s) of a map removal: the key argument of HashMap::remove, or the key given to the HashMap::entry lookup that produced the occupied entry being removed"""
    if callee_is(t, 'HashMap::remove', 'HashMap::remove_entry'):
        return [P.operand(g, t['args'][1], at=bb)]
    out = []
    for r, p in P.root(P.operand(g, t['args'][0], at=bb)):
        if P.is_call(r, 'HashMap::entry'):
            out.append(P.args_of(r)[1])
    return out


def own_sites(F, table, m, g, bb):
    """where, in the method m's own body (or its closures), the effect at (g, bb) is triggered: the site itself if g belongs to m, else m's call(s)
    to the helper that (transitively) contains it"""
    own = F.with_descendants(m)
    if any(g.id == x.id for x in own):
        return [(g, bb)]
    out = []
    for x in own:
        for b2, t2 in x.calls():
            h = F.callee_fn(t2)
            if h is None or not table.is_helper(h):
                continue
            if any(g.id == y.id for y in reachable_local_fns(F, h, depth=3)):
                out.append((x, b2))
    return out


def lifter(F, P, within):
    """lift(g, term): rewrite a term of body g so that g's own parameters are replaced by the arguments of g's call site, as long as g is a private
    function with exactly one call site inside `within` (applied repeatedly, through closures too): a value written by a helper is then traced to where
    its caller obtained it.  Terms of functions with several call sites are left alone (their parameters stay parameters)."""
    ids = {x.id for x in within}
    sites = {}
    for h in within:
        for bb, t in h.calls():
            c = F.callee_fn(t)
            if c is not None:
                sites.setdefault(c.id, []).append((h, bb, t))

    def lift(g, term, depth=4):
        while depth > 0:
            depth -= 1
            if g.kind == 'Closure':
                return term     # closure parameters are resolved by root() through the combinator they are passed to
            ss = sites.get(g.id, [])
            if len(ss) != 1 or (g.vis or '').startswith('Public') and not (g.impl_of or {}).get('self_head'):
                return term
            if any('task::Context<' in g.local_ty(k) or 'task::wake::Context<' in g.local_ty(k) for k in range(1, g.argc + 1)):
                return term     # a poll function obtains its values itself; only plain (non-polling) helpers are handed them
            h, bb, t = ss[0]
            args = [P.operand(h, a, at=bb) for a in t['args']]
            term = P.subst(term, g.id, args)
            g = h
        return term
    return lift


def deep_bodies(F, f, depth=3):
    """the bodies that make up f's behaviour: f, its closures / async blocks, and — transitively — the private free functions and private methods of the
    same module it calls (a named `async fn` or helper extracted from it), with theirs"""
    mod = '::'.join(f.id.split('::')[:2])
    out, seen, work = [], set(), [(f, 0)]
    while work:
        g, d = work.pop()
        if g.id in seen:
            continue
        seen.add(g.id)
        for x in F.with_descendants(g):
            if x.id not in {y.id for y in out}:
                out.append(x)
            if d >= depth:
                continue
            for _, t in x.calls():
                c = F.callee_fn(t)
                if c is None or c.id in seen or not c.id.startswith(mod):
                    continue
                if (c.vis or '').startswith('Public') and not (c.impl_of or {}).get('self_head'):
                    continue
                if c.impl_of and c.impl_of.get('trait'):
                    continue
                if c.kind in ('Fn', 'AssocFn') and not (c.vis or '').startswith('Public'):
                    work.append((c, d + 1))
    return out


def future_bodies(F, P, g, operand, at):
    """coroutine bodies a future-valued operand denotes: an async block built here, or a call to a local `async fn`"""
    out = []
    for r, _ in P.root(P.operand(g, operand, at=at), inline=False):
        ru = P.unbound(r)
        if ru[0] == 'agg' and P._agg_rv(ru)['adt'] == 'coroutine':
            b = F.fns.get(P._agg_rv(ru)['adt_id'])
            if b is not None:
                out.append(b)
        elif ru[0] == 'call':
            c = F.callee_fn(P.call_term(ru))
            if c is not None:
                out += [b for b in F.with_descendants(c) if b.coroutine and b.id != c.id] or ([c] if c.coroutine else [])
    return out
