"""C11 Tracked request state is bounded and fully reclaimed — capacity fact, removal/timer pairing, server guard."""
from engine.facts import CannotDecide, callee_is, path_matches, strip_generics
from engine import cfg
from engine.asyncs import awaits, await_of_call
from .common import (Table, client_dispatch_poll, reachable_local_fns, norm_path, guarded_by_variant, guarded_by_bool, cmp_facts, SWAP, result_of, sends_cancel_id, in_module)
from .server_common import Server

EXTRA_CONFIGS = ('default', 'tokio1', 'serde1', 'serde-transport')   # feature configurations re-analysed in the thorough tier
META = {
    'level': 'other',
    'technique': 'static comparison-fact (dominating edge) rule for capacity; must-pass-through pairing of map removals with timer removals in both tables; guard arm/disarm dominator rules',
    'text': 'Decides: (1) the client dequeues a request (and hence registers it) only under the fact len(table) < max_in_flight_requests established by a dominating comparison edge, and '
            'the table is inserted into at that one site; (2) in both in-flight tables every removal of a map entry is followed on every path of the same method by the removal of that '
            'entry\'s timer (or a clear()), except where the timer just fired, and every armed timer\'s key is stored in the entry — so no timer-only or entry-only leak exists; (3) the '
            'server response guard is armed before an InFlightRequest exists, disarmed only after the Abortable completed, sends its id when dropped armed, and the channel forwards every '
            'id from that queue to the non-aborting removal. A response handed to the server channel removes its entry first and is written on the hit edge only (C11.response). Not decided: the dynamic equality count == outstanding.',
    'note': 'Trusted: HashMap / DelayQueue semantics; Rust drop semantics. The property\'s hook accessors are unnecessary: timer-only leaks are exactly what clause (2) excludes.',
}


def timer_removed_with_entry(ctx, tag, side):
    """the converse of the pairing: a timer is removed only for an entry that has just been taken out of the map (or for a timer armed a moment ago in the same
    call, on a path that does not store its key).  Removing the timer of an entry that stays tracked leaves a stale key behind: DelayQueue::remove panics on
    an invalid key when that entry is finally removed, or silently removes another request's timer if the slot was reused."""
    F, P, R = ctx.F, ctx.P, ctx.run
    from .common import MAP_REMOVALS
    T = Table(F, side)
    key_field = T.data_field('delay_queue::Key')
    n = 0
    for m in T.methods:
        if T.is_helper(m):
            continue
        ctxs = {b_.id for b_ in T.bodies(m)}
        for g in T.bodies(m):
            for bb, t in g.calls():
                if not callee_is(t, 'DelayQueue::remove', 'DelayQueue::try_remove'):
                    continue
                n += 1
                rs = P.root(P.operand(g, t['args'][1], at=bb), through_params=T.is_helper, callers=ctxs)
                ok = bool(rs)
                det = []
                for r, p in rs:
                    if P.is_call(r, *MAP_REMOVALS) and key_field in P.fpath(p):
                        continue
                    if P.is_call(r, 'DelayQueue::insert', 'DelayQueue::insert_at'):
                        continue
                    if P.is_call(r, 'HashMap::drain', 'hash_map::Drain::next', 'Iterator::next'):
                        continue
                    ok = False
                    det.append(P.describe(r) + str(list(norm_path(p))))
                R.ob(tag, (side + ' table', m.npath.split('::')[-1], 'a timer is removed only with its entry'), ok,
                     'the key handed to DelayQueue::remove is the key stored in an entry just removed from the map (or of a timer armed in this very call): no tracked entry is left with a stale timer key',
                     [g.loc(t)], 'key from: %s' % det)
    return n


def removal_pairing(ctx, tag, side):
    F, P, R = ctx.F, ctx.P, ctx.run
    T = Table(F, side)
    key_field = T.data_field('delay_queue::Key')
    from .common import variant_values
    n = 0

    def paired_at(g, bb, is_me):
        """in body g, the call at bb yields the removed entry (directly, or through a helper): after its hit edge every path removes that entry's timer"""
        me = ('call', g.id, bb)
        tms = []
        for b2, t2 in g.calls():
            if callee_is(t2, 'DelayQueue::remove', 'DelayQueue::try_remove'):
                rr = P.root(P.operand(g, t2['args'][1], at=b2))
                if rr and all(is_me(r) and key_field in P.fpath(p) for r, p in rr):
                    tms.append(b2)
            if callee_is(t2, 'DelayQueue::clear'):
                tms.append(b2)
            # the timer removal may sit in a small helper (a method of the entry type taking the queue): judged with this call as its only context
            h = F.callee_fn(t2)
            if h is not None and T.is_helper(h) and h.kind != 'Closure':
                for x in F.with_descendants(h):
                    for b3, t3 in x.calls():
                        if callee_is(t3, 'DelayQueue::remove', 'DelayQueue::try_remove'):
                            rr = P.root(P.operand(x, t3['args'][1], at=b3), through_params=T.is_helper, callers={g.id})
                            if rr and all(is_me(r) and key_field in P.fpath(p) for r, p in rr) and cfg.all_paths_pass(x, 0, cfg.exits(x), {b3}):
                                tms.append(b2)
        hit = None
        for i, b in enumerate(g.blocks):
            if b['cleanup'] or b['term']['k'] != 'switch':
                continue
            d = b['term']['discr']
            if d['k'] in ('copy', 'move'):
                tt = P.operand(g, d, at=i)
                if tt[0] == 'discr' and result_of(P, tt[1], me):
                    ety = None
                    for st_ in b['stmts']:
                        if st_['rv']['k'] == 'discr':
                            ety = st_['rv'].get('ty')
                    vals = variant_values(F, ety, ['Some', 'Continue']) if ety else None
                    some = dict((v, x) for v, x in b['term']['targets']).get(vals[0] if vals else 1)
                    if some is not None:
                        hit = some
        if hit is not None and bool(tms) and cfg.all_paths_pass(g, hit, cfg.exits(g), set(tms)):
            return True
        # the hit edge may be a closure handed to Option::map / and_then / map_or on the removal's result (it runs exactly when an entry was removed):
        # then the timer removal must be on every path of that closure, keyed by the removed entry
        for b2, t2 in g.calls():
            if not callee_is(t2, 'Option::map', 'Option::and_then', 'Option::map_or', 'Option::map_or_else', 'Option::is_some_and', 'Option::inspect'):
                continue
            if not result_of(P, P.operand(g, t2['args'][0], at=b2), me):
                continue
            for a_ in t2['args'][1:]:
                for cr, _ in P.root(P.operand(g, a_, at=b2)):
                    cu = P.unbound(cr)
                    if cu[0] != 'agg' or P._agg_rv(cu).get('adt') != 'closure':
                        continue
                    body = F.fns.get(P._agg_rv(cu).get('adt_id'))
                    if body is None:
                        continue
                    tm2 = []
                    for b3, t3 in body.calls():
                        if callee_is(t3, 'DelayQueue::remove', 'DelayQueue::try_remove'):
                            rr = P.root(P.operand(body, t3['args'][1], at=b3))
                            if rr and all(is_me(r) and key_field in P.fpath(p) for r, p in rr):
                                tm2.append(b3)
                        if callee_is(t3, 'DelayQueue::clear'):
                            tm2.append(b3)
                    if tm2 and cfg.all_paths_pass(body, 0, cfg.exits(body), set(tm2)):
                        return True
        return False

    def discharged(m, g, bb, is_me, depth=3):
        """paired in g itself, or g belongs to a private helper of the table that hands the removed entry to its callers and every call site (within
        the entry point m) is paired"""
        if paired_at(g, bb, is_me):
            return True
        h = F.enclosing_item(g)
        if depth == 0 or h is None or h.id == m.id or not T.is_helper(h) or h.kind == 'Closure':
            return False
        sites = [(g2, b2) for g2 in T.bodies(m) for b2, t2 in g2.calls() if F.callee_fn(t2) is h]
        return bool(sites) and all(discharged(m, g2, b2, is_me, depth - 1) for g2, b2 in sites)

    for m in T.removing():
        if m.impl_of and (m.impl_of.get('trait') or '').endswith('Drop'):
            continue
        if T.is_helper(m):
            continue   # judged in the context of the entry points that call it
        ctxs = {b_.id for b_ in T.bodies(m)}
        for g in T.bodies(m):
            for bb, t in g.calls():
                if callee_is(t, 'HashMap::remove', 'HashMap::remove_entry', 'hash_map::OccupiedEntry::remove', 'hash_map::OccupiedEntry::remove_entry'):
                    n += 1
                    from .common import removal_key_terms
                    kr = [x for kt in removal_key_terms(P, g, bb, t) for x in P.root(kt, through_params=T.is_helper, callers=ctxs)]
                    fired = bool(kr) and all(P.is_call(r, 'DelayQueue::poll_expired') for r, _ in kr)
                    if fired:
                        R.ob(tag, (side + ' table', m.npath.split('::')[-1], 'removal for a fired timer'), True,
                             'this removal is keyed by the timer that just fired (the DelayQueue already dropped it)', [g.loc(t)])
                        continue
                    me = ('call', g.id, bb)
                    ok = discharged(m, g, bb, lambda r, me=me: P.unbound(r) == me)
                    R.ob(tag, (side + ' table', m.npath.split('::')[-1], 'removal drops the entry\'s timer'), ok,
                         'every path after a successful map removal also removes that entry\'s deadline timer', [g.loc(t)])
                if callee_is(t, 'HashMap::drain', 'HashMap::clear', 'HashMap::retain'):
                    n += 1
                    cl = [b2 for b2, t2 in g.calls() if callee_is(t2, 'DelayQueue::clear')]
                    ok = bool(cl) and (any(cfg.dominates(g, c, bb) for c in cl) or cfg.all_paths_pass(g, bb, cfg.exits(g), set(cl)))
                    R.ob(tag, (side + ' table', m.npath.split('::')[-1], 'bulk removal clears all timers'), ok,
                         'emptying the map is paired with clearing the timers on every path', [g.loc(t)])
    return T, n


def run(ctx):
    F, P, R = ctx.F, ctx.P, ctx.run
    R.explanation = META['text']
    R.rule_text = 'one obligation per (site, clause): capacity fact at the dequeue; one per map-removal site in each table; guard clauses'
    R.assumptions = ['HashMap::len is exact', 'DelayQueue::remove forgets the timer']
    R.info['configs'] = ['full']

    # ------------------------------------------------------------------ (1) capacity
    poll = client_dispatch_poll(F)
    reach = reachable_local_fns(F, poll)
    CT = Table(F, 'client')
    max_field = F.field_of_type('client::Config', lambda t: t == 'usize') if False else None
    deq = [(g, bb, t) for g in reach for bb, t in g.calls() if callee_is(t, 'mpsc::Receiver::poll_recv') and 'DispatchRequest' in str(t.get('arg_tys'))]
    # only the dequeue sites whose item is forwarded (the terminal drain also polls the queue)
    n_cap = 0
    for g, bb, t in deq:
        item = ('call', g.id, bb)
        forwards = False
        for i, j, s in g.stmts():
            if s['rv']['k'] == 'agg' and s['rv']['variant'] in ('Ok', 'Some', 'Ready'):
                for o in s['rv']['ops']:
                    rs = P.root(P.operand(g, o, at=i))
                    if rs and all(r == item for r, p in rs):
                        forwards = True
        if not forwards:
            continue
        n_cap += 1
        facts = list(cmp_facts(F, P, g, bb))
        # a dequeue that sits in a private helper with one call site is also covered by the facts that dominate that call (repeatedly)
        g_, depth_ = g, 3
        while depth_ > 0:
            depth_ -= 1
            cs_ = [(h, b2) for h in reach for b2, t2 in h.calls() if F.callee_fn(t2) is g_]
            if len(cs_) != 1:
                break
            h, b2 = cs_[0]
            facts += list(cmp_facts(F, P, h, b2))
            g_ = h
        ok = False
        det = []
        for op, a, b, sw in facts:
            # normalise to  len(table) < max
            for (o2, x, y) in ((op, a, b), (SWAP[op], b, a)):
                if o2 != 'Lt':
                    continue
                xr = P.root(x)
                yr = P.root(y)
                is_len = bool(xr) and all(P.is_call(r, 'HashMap::len') and all(rr[0] == 'param' and CT.map_field in P.fpath(pp) for rr, pp in P.root(P.args_of(r)[0])) for r, _ in xr)
                is_max = bool(yr) and all(r[0] == 'param' and P.fpath(p)[-1:] == ('max_in_flight_requests',) and 'config' in P.fpath(p) for r, p in yr)
                det.append('%s %s %s' % ([P.describe(r) for r, _ in xr], o2, [P.describe(r) + str(P.fpath(p)) for r, p in yr]))
                if is_len and is_max:
                    ok = True
        R.ob('C11.capacity', ('dispatch poll', 'dequeue only below the in-flight maximum'), ok,
             'a request is taken from the queue (to be transmitted and registered) only under len(in-flight table) < config.max_in_flight_requests', [g.loc(t)], '; '.join(det))
    R.ob('C11.capacity', ('dispatch poll', 'forwarding dequeue sites'), n_cap == 1, 'requests enter the write path at one dequeue site', [g.loc(t) for g, _, t in deq])
    ins = CT.one(CT.inserting(), 'inserting')
    isites = [(g, bb, t) for g in F.fns.values() for bb, t in g.calls() if F.callee_fn(t) is ins]
    R.ob('C11.capacity', ('client table', 'single registration site'), len(isites) == 1 and any(isites[0][0].id == x.id for x in reach),
         'the table grows only at the transmission site fed by that dequeue', [g.loc(t) for g, _, t in isites])
    for g, bb, t in isites:
        from .common import lifter
        kr = P.root(lifter(F, P, reach)(g, P.operand(g, t['args'][1], at=bb)))
        ok = bool(kr) and all(P.unbound(r)[0] == 'call' and (P.unbound(r)[1], P.unbound(r)[2]) in {(x.id, b2) for x, b2, _ in deq} for r, _ in kr)
        R.ob('C11.capacity', ('dispatch poll', 'registered request is the one dequeued under the fact'), ok,
             'the request registered is the item of that guarded dequeue (one registration per dequeue, none in between)', [g.loc(t)])

    # ------------------------------------------------------------------ (2) pairing
    T1, n1 = removal_pairing(ctx, 'C11.pairing', 'client')
    T2, n2 = removal_pairing(ctx, 'C11.pairing', 'server')
    timer_removed_with_entry(ctx, 'C11.pairing', 'client')
    timer_removed_with_entry(ctx, 'C11.pairing', 'server')
    R.count('client_removal_sites', n1)
    R.count('server_removal_sites', n2)
    if n1 < 4 or n2 < 3:
        raise CannotDecide('removal sites: client %d (floor 4), server %d (floor 3)' % (n1, n2))

    # ------------------------------------------------------------------ (3) server guard
    S = Server(F, P)
    # a response handed to the channel reclaims its request's entry before anything else: the transport write sits on the hit edge of the removal, so a write
    # that fails (and is passed on or swallowed) cannot leave the entry and its timer behind until the deadline
    from .server_common import tracked_gate
    tracked_gate(ctx, 'C11.response', S)
    flag = F.field_of_type('server::ResponseGuard', lambda t: t == 'bool')
    idf = F.field_of_type('server::ResponseGuard', lambda t: t == 'u64')
    # created inert in the registration
    reg = S.register
    for i, j, s in reg.aggregates('server::ResponseGuard'):
        agg = ('agg', reg.id, i, j)
        fl = P._field(agg, flag)
        R.ob('C11.guard', ('BaseChannel request registration', 'guard created inert'), fl[0] == 'const' and 'false' in fl[2], 'a tracked request\'s guard starts disarmed', [reg.loc(s)])
        ir = P.root(P._field(agg, idf))
        R.ob('C11.guard', ('BaseChannel request registration', 'guard carries the request id'), bool(ir) and all(r == ('param', reg.id, 2) and P.fpath(p) == ('id',) for r, p in ir),
             'the guard names the request it protects', [reg.loc(s)])
    from .server_common import guard_flag_writes
    writes = guard_flag_writes(F, P, flag)
    arms = [w for w in writes if w[3]]
    disarms = [w for w in writes if not w[3]]
    R.ob('C11.guard', ('server::ResponseGuard', 'one arm site, one disarm site'), len(arms) == 1 and len(disarms) == 1, 'the guard flag is set at one place and cleared at one place',
         [f.loc(s) for f, _, s, _, _ in writes])
    ifr = list(F.all_aggregates('server::InFlightRequest'))
    for f, i, s, _, wl in arms:
        ok = any(g.id == f.id and cfg.dominates(g, i, bi) for g, bi, bj, bs in ifr)
        R.ob('C11.guard', ('Requests stream', 'armed before the InFlightRequest exists'), ok,
             'by the time an InFlightRequest can be dropped its guard is armed', [f.loc(s)])
        for g, bi, bj, bs in ifr:
            gl = P._field(('agg', g.id, bi, bj), 'response_guard')
            # the guard placed in the InFlightRequest is the armed local
            R.ob('C11.guard', ('Requests stream', 'armed guard is the one handed out'), g.id == f.id and wl in _locals_of(P, g, bs, 'response_guard'),
                 'the guard armed is the guard stored in the InFlightRequest', [g.loc(bs)])
    ex = S.execute
    for f, i, s, _, wl in disarms:
        okb = f.id.startswith(ex.id)
        ab = [(bb, t) for bb, t in f.calls() if callee_is(t, 'Abortable::new')]
        ok = okb and len(ab) == 1
        if ok:
            a = None
            for aw in awaits(P, f):
                if any(P.unbound(r) == ('call', f.id, ab[0][0]) for r, _ in aw['roots']):
                    a = aw
            ok = a is not None and a['ready_bb'] is not None and cfg.dominates(f, a['ready_bb'], i)
        R.ob('C11.guard', ('InFlightRequest::execute', 'disarmed only after the Abortable completed'), ok,
             'the guard stays armed while the handler can still be dropped midway', [f.loc(s)])
    drop = F.trait_method('Drop', 'server::ResponseGuard', 'drop')
    cs = [(bb, t, ids) for bb, t in drop.calls() for ids in [sends_cancel_id(F, P, drop, bb, t)] if ids]
    ok = len(cs) == 1
    if ok:
        bb, t, ids = cs[0]
        pred = lambda x: any(r == ('param', drop.id, 1) and P.fpath(p) == (flag,) for r, p in P.root(x))
        ok = bool(guarded_by_bool(F, P, drop, bb, pred, True)) and all(P.root(x) and all(r == ('param', drop.id, 1) and P.fpath(p) == (idf,) for r, p in P.root(x)) for x in ids)
    R.ob('C11.guard', ('Drop for server ResponseGuard', 'armed drop reports its id'), ok, 'dropping an armed guard queues its own request id for clean-up', [drop.loc(drop.d)])
    # channel forwards the queue to the non-aborting removal
    pn = S.poll_next
    kp = S.key_param(S.plain)
    fw = []
    for g in reachable_local_fns(F, pn):
        for bb, t in g.calls():
            if F.callee_fn(t) is S.plain:
                kr = P.root(P.operand(g, t['args'][kp - 1], at=bb), through_params=True, callers={x.id for x in reachable_local_fns(F, pn)})   # also through a private helper of the channel
                if kr and all(P.is_call(r, 'CanceledRequests::poll_recv', 'UnboundedReceiver::poll_recv', 'poll_next_unpin') and ('v', 'Some') in p for r, p in kr):
                    fw.append((g, t))
    R.ob('C11.guard', ('<BaseChannel as Stream>::poll_next', 'abandoned requests are untracked'), len(fw) == 1,
         'every id taken from the guard queue is handed to the (non-aborting) removal, so abandoned handlers stop counting without waiting for their deadline', [g.loc(t) for g, t in fw] or [pn.loc(pn.d)])
    R.count('functions_analysed', len(reach) + len(T1.methods) + len(T2.methods) + 5)

    # the guard queue is registered on every idle return of the request stream (abandoned handlers are untracked without waiting for deadlines)
    from .coverage import coverage
    coverage(ctx, 'C11.cover', ('K',))
    # client: an id taken from the cancellation queue always reaches the table removal (and, if it hit, the wire) before the dispatch returns
    from .wake import dispatch_setup
    from .shape_common import run_jobs
    from .C03 import OwedCancelAut
    poll_, reach_, acc, cells, cmps = dispatch_setup(F, P)
    res = run_jobs(F, [{'key': 'owed', 'entry': poll_.id, 'aut': ('custom', OwedCancelAut), 'acc': acc, 'cells': cells}])['owed']
    lost = sorted({(e[0], repr(ret)[:40]) for (ret, e, lab) in res['exits'] if e[0] in ('owed', 'taken') and not ('Err' in repr(ret)) and not any(isinstance(v, tuple) and v and v[0] == 'Some' for _, v in e[1])})
    R.ob('C11.cancel', ('client dispatch poll', 'a consumed cancellation always untracks its request'), not lost and not res['viol'],
         'once an id was taken from the client\'s cancellation queue, the table removal for it happens in the same activation: an abandoned call\'s entry and timer cannot be left behind by an early return',
         [poll_.loc(poll_.d)], 'exits with a consumed but unprocessed cancellation: %s' % lost)

    from .server_common import guard_always_disarmed
    guard_always_disarmed(ctx, 'C11.guard', S)
    # the guards' clean-up requests are never dropped before they reach the queue
    from .common import cancel_always_enqueues
    cancel_always_enqueues(ctx, 'C11.guard')

def _locals_of(P, g, agg_stmt, field):
    """locals that (through temporaries) feed the given field of an aggregate statement"""
    from engine.asyncs import base_local
    rv = agg_stmt['rv']
    if field not in rv['fields']:
        return set()
    op = rv['ops'][rv['fields'].index(field)]
    l = base_local(g, P, op)
    return {l} if l is not None else set()
