"""Event tables (Appendix C), automata and entry/chain enumeration for the E-SHAPE rules."""
from engine.facts import CannotDecide, callee_is, path_matches, strip_generics, ty_head
from engine.shape import Explorer, STAR, is_ready_ok, poll_outcome, Budget


def classify(t, f):
    """call terminator -> (resource, op) or None.  Resources identified by callee and receiver type."""
    c = strip_generics(t.get('callee') or '')
    st = t.get('self_ty') or ''
    a0 = (t.get('arg_tys') or [''])[0]
    if c in ('futures::Sink::poll_ready', 'futures::Sink::start_send', 'futures::Sink::poll_flush', 'futures::Sink::poll_close') and 'Fuse<' in st:
        return ('W', c.split('::')[-1])
    if c in ('futures::Stream::poll_next', 'futures::StreamExt::poll_next_unpin') and (st.startswith('futures::stream::Fuse<') or st.startswith('std::pin::Pin<&mut futures::stream::Fuse<')):
        return ('R', 'poll_next')
    if c == 'tokio::sync::mpsc::Receiver::poll_recv':
        if 'DispatchRequest' in a0:
            return ('Q', 'poll_recv')
        if 'Response<' in a0:
            return ('P', 'poll_recv')
        return ('Q?', 'poll_recv')
    if c == 'tokio::sync::mpsc::Receiver::close':
        return ('CLOSEQ', 'close')
    if c == 'tokio::sync::mpsc::UnboundedReceiver::poll_recv':
        return ('K', 'poll_recv')
    if c == 'tokio_util::time::DelayQueue::poll_expired':
        return ('T', 'poll_expired')
    if c == 'tokio_util::time::DelayQueue::is_empty':
        return ('T', 'is_empty')
    if c in ('std::collections::HashMap::drain', 'std::collections::HashMap::clear'):
        return ('M', 'drain')
    if c == 'std::collections::HashMap::is_empty':
        return ('M', 'is_empty')
    if c in ('std::collections::HashMap::remove', 'std::collections::HashMap::remove_entry') and ('u64' in str(t.get('arg_tys')) or f.id.startswith('tarpc::util')):
        return ('M', 'remove')     # the in-flight tables' maps (keyed by the u64 request id), also when reached through a generic helper in util
    return None


PROGRESS_RES = ('R', 'Q', 'K', 'T', 'P')


def label_is_progress(l):
    res = l.split('.')[0]
    if res in PROGRESS_RES and 'Some' in l:
        return True
    return l.startswith('W.start_send')


class SinkAut:
    """sink typestate: (last, unflushed, flush_pending)"""
    name = 'sink'

    def init(self):
        return ('none', False, False)

    @staticmethod
    def is_failed(a):
        return isinstance(a, tuple) and a and a[0] in ('failed', 'closed')

    is_progress = staticmethod(label_is_progress)

    @staticmethod
    def spin_label(l):
        return l == 'W.poll_ready=Pending'

    def step(self, aut, ev, shape, site, X):
        last, unflushed, fpend = aut
        kind, op = ev
        if kind != 'W':
            return aut
        if last in ('failed', 'closed'):
            if op == 'start_send':
                X.violation(('WRITE_AFTER_' + last.upper(), op), site)
            else:
                X.stats['repolls_after_' + last] += 1
            if op != 'start_send':
                return aut   # a failed / closed sink stays failed / closed
        if op == 'poll_ready':
            if shape == 'Pending':
                return ('ready_pending', unflushed, fpend)
            if is_ready_ok(shape):
                return ('ready_ok', unflushed, fpend)
            return ('failed', unflushed, fpend)
        if op == 'start_send':
            if last != 'ready_ok':
                X.violation(('START_SEND_WITHOUT_READY', last), site)
            if last in ('failed', 'closed'):
                return aut
            if not (isinstance(shape, tuple) and shape[0] == 'Ok'):
                return ('send_err', unflushed, fpend)   # a refused item is not a sink failure (property wording)
            return ('sent', True, False)
        if op == 'poll_flush':
            if is_ready_ok(shape):
                return (last if last == 'ready_ok' else 'flush_ok', False, False)
            if shape == 'Pending':
                return (last if last == 'ready_ok' else 'flush_pending', unflushed, True)
            return ('failed', unflushed, fpend)
        if op == 'poll_close':
            if is_ready_ok(shape):
                return ('closed', False, False)
            if shape == 'Pending':
                return ('close_pending', unflushed, True)
            return ('failed', unflushed, fpend)
        return aut


class SourceAut:
    """one wake source joined with the context its exemptions need: (S_last, w_wait, drain)
    S_last in unpolled | Pending | Closed | Progress | Err; w_wait: some W poll returned Pending since
    the last sink progress; drain: the request queue has been close()d."""

    def __init__(self, src):
        self.src = src
        self.name = 'src_' + src

    def init(self):
        return ('unpolled', False, False)

    def step(self, aut, ev, shape, site, X):
        s_, w, d = aut
        if ev[0] == 'CLOSEQ':
            return (s_, w, True)
        if ev[0] == 'W':
            if ev[1] == 'start_send':
                w = False
            elif shape == 'Pending':
                w = True
        if ev[0] == self.src:
            if ev[1] == 'is_empty':
                if shape is True:
                    s_ = 'Closed'
            elif self.src == 'W':
                pass
            else:
                s_ = poll_outcome(shape)
        return (s_, w, d)


class CloseAut:
    """C10.1: outcomes of the two client queues when poll_close is reached: (Q, K)"""
    name = 'close'

    def init(self):
        return ('unpolled', 'unpolled')

    def step(self, aut, ev, shape, site, X):
        q, k = aut
        if ev[0] == 'Q' and ev[1] == 'poll_recv':
            q = poll_outcome(shape)
        if ev[0] == 'K':
            k = poll_outcome(shape)
        if ev == ('W', 'poll_close'):
            if (q, k) != ('Closed', 'Closed'):
                X.violation(('CLOSE_BEFORE_BOTH_QUEUES_CLOSED', q, k), site)
            else:
                X.stats['close_with_both_queues_closed'] += 1
        return (q, k)


def find_cell_accessors(F, P, adt_suffix, type_pred):
    """accessor fns returning a reference to a receiver field whose type satisfies type_pred: fn id -> field"""
    adt = F.adt(adt_suffix)
    fields = {x[0]: x[1] for x in adt['variants'][0]['fields'] if type_pred(x[1])}
    out = {}
    for f in F.fns.values():
        if f.kind != 'AssocFn' or not f.impl_of or not f.impl_of.get('self_head') or not path_matches(f.impl_of['self_head'], adt_suffix):
            continue
        if f.impl_of.get('trait'):
            continue
        if len(f.blocks) > 12 or f.argc != 1:
            continue
        rs = P.root(P._local_whole(f, 0))
        if rs and all(r == ('param', f.id, 1) for r, _ in rs):
            fp = {P.fpath(p)[-1:] for _, p in rs}
            if len(fp) == 1 and list(fp)[0] and list(fp)[0][0] in fields:
                out[f.id] = list(fp)[0][0]
    return out, fields


def server_chains(F):
    """instantiation chains for `Requests<C>`: every Channel impl that decorates another channel, up to depth 2."""
    chans = [im for im in F.trait_impls('server::Channel')]
    base = [im['self_head'] for im in chans if im['self_head'] and path_matches(im['self_head'], 'server::BaseChannel')]
    deco = [im['self_head'] for im in chans if im['self_head'] and im['self_head'] not in base]
    if len(base) != 1:
        raise CannotDecide('BaseChannel Channel impl')
    b = base[0]
    chains = [[b]]
    for d in deco:
        chains.append([d, b])
    for d1 in deco:
        for d2 in deco:
            if d1 != d2:
                chains.append([d1, d2, b])
    return chains


def chain_name(ch):
    s = ''
    for c in reversed(ch):
        n = c.split('::')[-1]
        s = n if not s else '%s<%s>' % (n, s)
    return s


# ---------------------------------------------------------------------------------------------
# parallel exploration (fork workers share the loaded fact base)
_JOB_F = None


def make_aut(spec):
    if spec[0] == 'sink':
        return SinkAut()
    if spec[0] == 'src':
        return SourceAut(spec[1])
    if spec[0] == 'close':
        return CloseAut()
    if spec[0] == 'custom':
        return spec[1]()
    raise ValueError(spec)


def _run_job(job):
    F = _JOB_F
    try:
        X = Explorer(F, make_aut(job['aut']), classify, chain=job.get('chain', ()), cell_accessors=job.get('acc'), cmp_sites=job.get('cmp_sites'),
                     depth=job.get('depth', 4), kill_facts=job.get('kill_facts'), max_states=job.get('max_states', 1500000), boundary=job.get('boundary'))
        entry = F.fns[job['entry']]
        exits = set()
        for cellv in job.get('cells', [()]):
            env = (X.A.init(), cellv, frozenset())
            from engine.shape import SELFREF
            args0 = tuple((SELFREF if (i_ == 0 and job.get('acc')) else STAR) for i_ in range(entry.argc))
            exits |= set(X.summarize(entry, args0, env))
        return {'key': job['key'], 'exits': exits, 'viol': {k: sorted(v) for k, v in X.viol_sites.items()}, 'spin': dict(X.spin), 'stats': dict(X.stats),
                'unmodelled': dict(X.unmodelled), 'summaries': len(X.memo), 'error': None}
    except Budget as e:
        return {'key': job['key'], 'error': str(e)}


def _code_hash():
    import hashlib
    import glob
    import os
    base = os.path.dirname(os.path.dirname(os.path.abspath(__file__)))
    h = hashlib.sha256()
    for p in sorted(glob.glob(os.path.join(base, 'engine', '*.py')) + glob.glob(os.path.join(base, 'rules', '*.py'))):
        with open(p, 'rb') as fh:
            h.update(fh.read())
    return h.hexdigest()[:16]


def _job_cache_key(F, job):
    """exploration results depend only on the fact file, the job description and the analyser's own code"""
    import hashlib
    import os
    spec = {}
    for k, v in job.items():
        if k == 'key':
            continue
        if callable(v):
            v = getattr(v, '__module__', '') + '.' + getattr(v, '__qualname__', repr(v))
        elif k == 'aut' and len(v) > 1 and callable(v[1]):
            v = (v[0], v[1].__module__ + '.' + v[1].__qualname__)
        elif isinstance(v, dict):
            v = sorted((str(a), str(b)) for a, b in v.items())
        spec[k] = repr(v)
    st = os.stat(F.path)
    raw = repr(sorted(spec.items())) + '|' + F.path + '|%d|%d' % (st.st_size, int(st.st_mtime)) + '|' + _code_hash()
    return hashlib.sha256(raw.encode()).hexdigest()[:32]


def run_jobs(F, jobs, nproc=None):
    """runs exploration jobs in forked workers; returns {key: result}.  Results are cached under .cache/shape keyed by the fact
    file identity, the job description and a hash of the analyser's code, so that several properties sharing an exploration (e.g. the
    per-source jobs of the client dispatch) pay for it once per tree."""
    import multiprocessing as mp
    import os
    import pickle
    global _JOB_F
    _JOB_F = F
    cdir = os.path.join(os.environ.get('VERIF_CACHE', os.path.join(os.path.dirname(os.path.dirname(os.path.abspath(__file__))), '.cache')), 'shape')
    os.makedirs(cdir, exist_ok=True)
    try:   # bound the cache: drop the oldest entries beyond 400 files
        ents = sorted((os.path.getmtime(os.path.join(cdir, x)), x) for x in os.listdir(cdir))
        for _, x in ents[:-400]:
            os.remove(os.path.join(cdir, x))
    except OSError:
        pass
    out, todo = {}, []
    for j in jobs:
        ck = os.path.join(cdir, _job_cache_key(F, j) + '.pkl')
        j['_cache'] = ck
        if os.path.exists(ck) and not os.environ.get('VERIF_NO_SHAPE_CACHE'):
            try:
                with open(ck, 'rb') as fh:
                    r = pickle.load(fh)
                r['key'] = j['key']
                r['cached'] = True
                out[j['key']] = r
                continue
            except Exception:
                pass
        todo.append(j)
    nproc = nproc or min(len(todo), max(1, (os.cpu_count() or 2) - 1), 14)
    if todo:
        if nproc <= 1 or len(todo) <= 1:
            res = [_run_job(j) for j in todo]
        else:
            ctx = mp.get_context('fork')
            with ctx.Pool(nproc) as pool:
                res = pool.map(_run_job, todo, chunksize=1)
        for j, r in zip(todo, res):
            if r.get('error'):
                raise CannotDecide('shape exploration: ' + r['error'])
            out[r['key']] = r
            try:
                tmp = j['_cache'] + '.%d.tmp' % os.getpid()
                with open(tmp, 'wb') as fh:
                    pickle.dump(r, fh)
                os.replace(tmp, j['_cache'])
            except Exception:
                pass
    return out


def cmp_sites_for(F, P, fns, is_a, is_b, name):
    """comparison statements `a OP b` (either order) in the given bodies where is_a / is_b classify the
    operands.  Returns {(fn id, bb, stmt idx): fact name} where the fact name encodes the orientation:
    name+'+' : the comparison being TRUE means  a >= b ;  name+'-' : TRUE means a < b  (or a == b for Eq: name+'=')."""
    out = {}
    for f in fns:
        for i, j, s in f.stmts():
            rv = s['rv']
            if rv['k'] != 'bin' or rv['op'] not in ('Lt', 'Le', 'Gt', 'Ge', 'Eq', 'Ne'):
                continue
            a = P.operand(f, rv['a'], at=i)
            b = P.operand(f, rv['b'], at=i)
            op = rv['op']
            if is_a(a) and is_b(b):
                pass
            elif is_a(b) and is_b(a):
                op = {'Lt': 'Gt', 'Le': 'Ge', 'Gt': 'Lt', 'Ge': 'Le', 'Eq': 'Eq', 'Ne': 'Ne'}[op]
            else:
                continue
            sense = {'Ge': '+', 'Lt': '-', 'Eq': '=', 'Ne': '!', 'Gt': '>', 'Le': '<'}[op]
            out[(f.id, i, j)] = name + sense
    return out


def fact_true(facts, name):
    """does the fact set establish `a >= b` for the comparison family `name`?"""
    d = dict(facts)
    return d.get(name + '+') is True or d.get(name + '-') is False


def fact_false(facts, name):
    d = dict(facts)
    return d.get(name + '+') is False or d.get(name + '-') is True
