"""C03 Abandoned calls are cancelled on the wire, exactly when needed — E-CFG / E-PROV / E-Q."""
from engine.facts import CannotDecide, callee_is, path_matches
from engine.prov import const_int
from engine import cfg
from engine.asyncs import awaits, await_of_call, base_local
from .common import (result_of, deep_roots, Table, client_dispatch_poll, reachable_local_fns, norm_path, guarded_by_bool, guarded_by_variant, sends_cancel_id, find_calls, message_send_sites)

EXTRA_CONFIGS = ('default', 'tokio1', 'serde1', 'serde-transport')   # feature configurations re-analysed in the thorough tier
META = {
    'level': 'other',
    'technique': 'static dominator / control-dependence / provenance rules over MIR of Channel::call, the guard\'s Drop, and the dispatch write path',
    'text': 'Decides the ordering argument of the source comments on every path: the cancel guard (armed) is built before the request is enqueued and is dropped on the drop path of every '
            'suspension point of the call; its Drop closes the response receiver before queueing the cancellation, queues it only when armed and with the guard\'s own id; the guard is '
            'disarmed only after the response await completed; the dispatch transmits a dequeued request only on the not-closed edge of that request\'s own sender, registers it before '
            'writing it, and writes a Cancel only with the id taken from the cancellation queue and only on the hit edge of the table removal keyed by that id (so: only for transmitted, '
            'unfinished requests, at most once, after the request). Request and Cancel messages are constructed nowhere else. An entry leaves the client table without resolving its call only through the removal fed with ids from the cancellation queue (C03.removals), and an id taken from that queue is written in the same activation (C03.owed).',
    'note': 'Trusted: tokio oneshot close()/is_closed() visibility ordering, mpsc FIFO. Sub-poll interleavings are covered in the sense that these orderings are exactly the argument for them.',
}


def owed_rule(ctx, tag, poll=None):
    """once an id was taken from the cancellation queue and its entry removed, the Cancel is handed to the transport in the same activation"""
    F, P, R = ctx.F, ctx.P, ctx.run
    from .wake import dispatch_setup
    from .shape_common import run_jobs
    poll_, reach_, acc, cells, cmps = dispatch_setup(F, P)
    poll = poll or poll_
    res = run_jobs(F, [{'key': 'owed', 'entry': poll_.id, 'aut': ('custom', OwedCancelAut), 'acc': acc, 'cells': cells}])['owed']
    R.count('states_explored', res['stats'].get('states', 0))
    owed_exits = sorted({(e[0], repr(ret)[:40]) for (ret, e, lab) in res['exits'] if e[0] in ('owed', 'taken') and not ('Err' in repr(ret)) and not any(isinstance(v, tuple) and v and v[0] == 'Some' for _, v in e[1])})
    R.ob(tag, ('dispatch poll', 'a cancellation taken for an in-flight request is written before the dispatch returns'), not owed_exits and not res['viol'],
         'once an id was taken from the cancellation queue and its entry removed, the Cancel is handed to the transport in the same activation (or the dispatch ends with an error): it cannot be dropped by an early return',
         sorted({s_ for v in res['viol'].values() for s_ in v}) or [poll.loc(poll.d)], 'exits with an unwritten cancellation: %s; %s' % (owed_exits, list(res['viol'])))


def run(ctx):
    F, P, R = ctx.F, ctx.P, ctx.run
    R.explanation = META['text']
    R.rule_text = 'one obligation per (entry point, clause)'
    R.assumptions = ['oneshot close happens-before a later is_closed on the sender', 'Rust drop semantics (no mem::forget in tarpc: checked in C02)']
    R.info['configs'] = ['full']

    # ------------------------------------------------------------------ 1. guard before enqueue, armed, dropped on every suspension
    call = F.inherent('client::Channel', 'call')
    bodies = [b for b in F.with_descendants(call)]
    gb = [(b, i, j, s) for b in bodies for i, j, s in b.aggregates('client::ResponseGuard')]
    flag_field = F.field_of_type('client::ResponseGuard', lambda t: t == 'bool')
    id_field = F.field_of_type('client::ResponseGuard', lambda t: t == 'u64')
    if len(gb) == 1:
        b, gi, gj, gs = gb[0]
        flag_alts = [P._field(('agg', b.id, gi, gj), flag_field)]
    else:
        # the guard may be built by a constructor function of its type: the creation point is the call to it
        made = []
        for b_ in bodies:
            for bb_, t_ in b_.calls():
                h_ = F.callee_fn(t_)
                if h_ is None or not ('ResponseGuard' in h_.local_ty(0)) or not list(h_.aggregates('client::ResponseGuard')):
                    continue
                made.append((b_, bb_, t_, h_))
        if len(made) != 1 or gb:
            raise CannotDecide('ResponseGuard constructor in call: %d aggregates, %d constructor calls' % (len(gb), len(made)))
        b, gi, t_, h_ = made[0]
        gs = dict(t_, pl=t_['dest'])
        flag_alts = [P._field(('agg', h_.id, i_, j_), flag_field) for i_, j_, s_ in h_.aggregates('client::ResponseGuard')]
    R.ob('C03.guard', ('Channel::call', 'guard armed at creation'), bool(flag_alts) and all(fl[0] == 'const' and 'true' in fl[2] for fl in flag_alts),
         'the guard is created armed (cancel: true)', [b.loc(gs)])
    enq = [(bb, t) for bb, t in b.calls() if callee_is(t, 'mpsc::Sender::send')]
    R.ob('C03.guard', ('Channel::call', 'single enqueue'), len(enq) == 1, 'the call enqueues its request once', [b.loc(t) for _, t in enq] or [b.loc(b.d)])
    if len(enq) == 1:
        R.ob('C03.guard', ('Channel::call', 'guard created before enqueue'), cfg.dominates(b, gi, enq[0][0]) and gi != enq[0][0],
             'on every path the guard exists before the request is handed to the dispatch', [b.loc(gs), b.loc(enq[0][1])])
    guard_local = gs['pl']['l']
    ys = [(i, bk['term']) for i, bk in enumerate(b.blocks) if bk['term']['k'] == 'yield' and not bk['cleanup']]
    after = [y for y in ys if y[0] in cfg.reachable(b, gi)]
    R.ob('C03.guard', ('Channel::call', 'suspension points after guard creation'), len(after) >= 2, 'both awaits of the call happen with the guard alive', [b.loc(t) for _, t in after] or [b.loc(b.d)])
    # what was the guard moved into (the response future)?
    holders = {guard_local}
    for bb, t in b.calls():
        for a in t['args']:
            if a['k'] == 'move' and base_local(b, P, a) == guard_local:
                holders.add(t['dest']['l'])
    changed = True
    while changed:
        changed = False
        for i, j, s in b.stmts():
            rv = s['rv']
            if rv['k'] == 'use' and rv['op']['k'] == 'move' and not rv['op']['pl']['p'] and rv['op']['pl']['l'] in holders and s['pl']['l'] not in holders and not s['pl']['p']:
                holders.add(s['pl']['l'])
                changed = True
        for bb, t in b.calls():
            if callee_is(t, 'IntoFuture::into_future') and t['args'][0]['k'] == 'move' and t['args'][0]['pl']['l'] in holders and t['dest']['l'] not in holders:
                holders.add(t['dest']['l'])
                changed = True
    for yi, yt in after:
        dpath = cfg.reachable(b, yt['drop']) if yt['drop'] is not None else set()
        # cleanup flag is false on coroutine drop paths
        dropped = [x for x in dpath if b.blocks[x]['term']['k'] == 'drop' and b.blocks[x]['term']['pl']['l'] in holders]
        R.ob('C03.guard', ('Channel::call', 'guard dropped when the call is abandoned', 'suspension %d' % after.index((yi, yt))), bool(dropped),
             'abandoning the call at this suspension point drops the guard (or the future that owns it)', [b.loc(yt)])

    # ------------------------------------------------------------------ 2. Drop for the guard
    drop = F.trait_method('Drop', 'client::ResponseGuard', 'drop')
    closes = [(bb, t) for bb, t in drop.calls() if callee_is(t, 'oneshot::Receiver::close')]
    cancels = [(bb, t, ids) for bb, t in drop.calls() for ids in [sends_cancel_id(F, P, drop, bb, t)] if ids]
    R.ob('C03.drop', ('Drop for ResponseGuard', 'closes the receiver and may cancel'), len(closes) == 1 and len(cancels) == 1,
         'the guard\'s Drop closes the response receiver and has one cancellation site', [drop.loc(t) for _, t in closes] + [drop.loc(t) for _, t, _ in cancels] or [drop.loc(drop.d)])
    if len(closes) == 1 and len(cancels) == 1:
        cb, ct = closes[0]
        sb, st, ids = cancels[0]
        R.ob('C03.drop', ('Drop for ResponseGuard', 'close before cancel'), cfg.dominates(drop, cb, sb) and cb != sb,
             'the receiver is closed before the cancellation is queued (so the dispatch sees either the cancel or a closed sender)', [drop.loc(ct), drop.loc(st)])
        pred = lambda x: any(r == ('param', drop.id, 1) and P.fpath(p) == (flag_field,) for r, p in P.root(x))
        R.ob('C03.drop', ('Drop for ResponseGuard', 'cancel only when armed'), bool(guarded_by_bool(F, P, drop, sb, pred, True)),
             'the cancellation is queued only on the true edge of the guard\'s cancel flag', [drop.loc(st)])
        ok = all(all(r == ('param', drop.id, 1) and P.fpath(p) == (id_field,) for r, p in P.root(x)) and P.root(x) for x in ids)
        R.ob('C03.drop', ('Drop for ResponseGuard', 'cancels its own id'), ok, 'the id queued for cancellation is the guard\'s request id', [drop.loc(st)])
        rc = P.root(P.operand(drop, ct['args'][0], at=cb))
        R.ob('C03.drop', ('Drop for ResponseGuard', 'closes its own receiver'), bool(rc) and all(r == ('param', drop.id, 1) for r, _ in rc), 'the receiver closed is the guard\'s', [drop.loc(ct)])

    from .common import cancel_always_enqueues
    cancel_always_enqueues(ctx, 'C03.drop')

    # ------------------------------------------------------------------ 3. disarm only after the response await
    disarm = []
    for f in F.fns.values():
        if F.is_derived(f):
            continue
        for i, j, s in f.stmts():
            fs = [e[2] for e in s['pl']['p'] if e[0] == 'f']
            if fs and fs[-1] == flag_field and 'ResponseGuard' in _base_ty(f, s['pl']) and 'client::ResponseGuard' in _base_ty(f, s['pl']):
                disarm.append((f, i, j, s))
    R.ob('C03.disarm', ('client::ResponseGuard', 'single disarm site'), len(disarm) == 1, 'the cancel flag is written at exactly one place after creation', [f.loc(s) for f, _, _, s in disarm])
    for f, i, j, s in disarm:
        v = s['rv']
        is_false = v['k'] == 'use' and v['op']['k'] == 'const' and 'false' in v['op']['v']
        aw = [a for a in awaits(P, f)]
        # the await on the response receiver
        ra = [a for a in aw if any('oneshot::Receiver' in F.fns[r[1]].local_ty(r[2]) if r[0] == 'param' else False for r, _ in a['roots'])
              or any('response' in P.fpath(p) for r, p in a['roots'])]
        ok = is_false and len(ra) == 1 and ra[0]['ready_bb'] is not None and cfg.dominates(f, ra[0]['ready_bb'], i)
        R.ob('C03.disarm', ('ResponseGuard::response', 'disarmed only after the response arrived'), ok,
             'the flag is cleared only after the response await completed, never while the call can still be abandoned', [f.loc(s)])
        if len(ra) == 1 and ra[0]['ready_bb'] is not None:
            rets = cfg.exits(f)
            R.ob('C03.disarm', ('ResponseGuard::response', 'always disarmed once resolved'), cfg.all_paths_pass(f, ra[0]['ready_bb'], rets, {i}),
                 'every path from the completed await to the return clears the flag (a resolved call never cancels)', [f.loc(s)])

    # ------------------------------------------------------------------ 4. closed-check before transmitting
    poll = client_dispatch_poll(F)
    reach = reachable_local_fns(F, poll)
    R.count('functions_analysed', len(reach) + len(bodies) + 2)
    sender_field = F.field_of_type('client::DispatchRequest', lambda t: 'oneshot::Sender' in t)
    qrecv = [(g, bb, t) for g in reach for bb, t in g.calls() if callee_is(t, 'mpsc::Receiver::poll_recv') and 'DispatchRequest' in (t.get('self_ty') or '') + str(t.get('arg_tys'))]
    n_hand = 0
    for g, bb, t in qrecv:
        item = ('call', g.id, bb)
        # aggregates that wrap the whole dequeued request (hand it onwards)
        hand = []
        for i, j, s in g.stmts():
            if s['rv']['k'] == 'agg' and s['rv']['variant'] in ('Ok', 'Some', 'Ready'):
                for o in s['rv']['ops']:
                    rs = P.root(P.operand(g, o, at=i))
                    if rs and all(r == item and norm_path(p) == (('v', 'Ready'), ('f', 0), ('v', 'Some'), ('f', 0)) for r, p in rs):
                        hand.append((i, s))
        if not hand:
            continue  # this poll_recv site does not forward requests (e.g. the terminal drain)
        n_hand += len(hand)
        for i, s in hand:
            pred = lambda x: any(P.is_call(r, 'oneshot::Sender::is_closed') and
                                 all(rr == item and sender_field in P.fpath(pp) for rr, pp in P.root(P.args_of(r)[0])) for r, _ in P.root(x))
            direct_guard = bool(guarded_by_bool(F, P, g, i, pred, False))
            if not direct_guard:
                # two-step form: the item is first classified by a local function into a carrier enum; the hand-on site is guarded by a variant that
                # the classifier produces only on the false edge of is_closed() of its argument's sender
                for b2, t2 in g.calls():
                    h = F.callee_fn(t2)
                    if h is None or h.coroutine or not any(rr == item for a_ in t2['args'] for rr, _ in P.root(P.operand(g, a_, at=b2))):
                        continue
                    cterm = ('call', g.id, b2)
                    for i2, j2, s2 in h.stmts():
                        rv2 = s2['rv']
                        if rv2['k'] != 'agg' or not rv2.get('variant') or (rv2.get('adt') or '').split('::')[0] in ('std', 'core'):
                            continue
                        v_ = rv2['variant']
                        hp = lambda x, h=h: any(P.is_call(r, 'oneshot::Sender::is_closed') and
                                                all(rr[0] == 'param' and rr[1] == h.id and sender_field in P.fpath(pp) for rr, pp in P.root(P.args_of(r)[0])) for r, _ in P.root(x))
                        produced_only_when_open = all(guarded_by_bool(F, P, h, i3, hp, False) for i3, j3, s3 in h.stmts()
                                                      if s3['rv']['k'] == 'agg' and s3['rv'].get('variant') == v_ and s3['rv'].get('adt') == rv2.get('adt'))
                        if produced_only_when_open and guarded_by_variant(F, P, g, i, lambda x: result_of(P, x, cterm), [v_]):
                            direct_guard = True
            R.ob('C03.closedcheck', ('dispatch poll', 'request forwarded only if its caller still waits'), direct_guard,
                 'a dequeued request is passed on for transmission only on the false edge of is_closed() of that request\'s own completion sender', [g.loc(s)])
    R.ob('C03.closedcheck', ('dispatch poll', 'request queue polled'), len(qrecv) >= 1, 'the dispatch reads the request queue', [g.loc(t) for g, _, t in qrecv] or [poll.loc(poll.d)])

    # ------------------------------------------------------------------ 5/6. message constructors and ordering at the send sites
    table = Table(F, 'client')
    insert_m = table.one(table.inserting(), 'inserting')
    rsend = message_send_sites(F, P, reach, 'Request')
    csend = message_send_sites(F, P, reach, 'Cancel')
    reqs = list(F.all_aggregates('ClientMessage', 'Request'))
    cans_all = list(F.all_aggregates('ClientMessage', 'Cancel'))
    R.ob('C03.ctor', ('ClientMessage', 'constructor sites'), len(reqs) == 1 and len(cans_all) == 1 and len(rsend) == 1 and len(csend) == 1
         and all(any(g.id == x.id for x in reach) for g, _, _, _ in reqs + cans_all),
         'requests and cancels are each built at one site and written at one site inside the dispatch', [g.loc(s) for g, _, _, s in reqs + cans_all])
    R.ob('C03.closedcheck', ('dispatch poll', 'a site hands dequeued requests on'), n_hand >= 1,
         'the closed-check rule applies to at least one site that forwards a whole dequeued request', [g.loc(t) for g, _, t in qrecv] or [poll.loc(poll.d)])
    for g, sbb, st_, agg in rsend:
        # the request written is one dequeued in this very activation (so it went through the closed check just now): it is not taken from a place where it
        # was parked across polls, where the caller may have abandoned it in the meantime
        for a in st_['args'][1:]:
            from .common import lifter
            rs = deep_roots(P, lifter(F, P, reach)(g, P.operand(g, a, at=sbb)))
            src = [(r, p) for r, p in rs if P.unbound(r)[0] in ('call', 'param')]
            fresh = bool(src) and all(P.is_call(r, 'mpsc::Receiver::poll_recv') or P.is_call(r, 'context::Context::current', 'Instant::now', 'trace::Context::new_child', 'Span::current')
                                      or (P.unbound(r)[0] == 'call' and not callee_is(P.call_term(P.unbound(r)), 'Option::take', 'mem::take', 'mem::replace', 'Option::replace', 'VecDeque::pop_front', 'Vec::pop'))
                                      for r, p in src) and not any(r[0] == 'param' for r, _ in src)
            R.ob('C03.closedcheck', ('dispatch poll', 'request written in the activation it was dequeued'), fresh,
                 'every part of the Request message written comes from the item just taken from the request queue, never from a request parked in the dispatch across polls',
                 [g.loc(st_)], str(sorted({P.describe(r) for r, _ in src}))[:300])
    for g, sbb, st_, agg in rsend:
        ins = [(bb, t) for bb, t in g.calls() if F.callee_fn(t) is insert_m]
        ok = len(ins) == 1 and cfg.dominates(g, ins[0][0], sbb) and ins[0][0] != sbb
        R.ob('C03.order', ('dispatch poll', 'registered before written'), ok, 'the request is in the in-flight table before it is handed to the transport (a later cancel will find it)',
             [g.loc(t) for _, t in ins] + [g.loc(st_)])
    cans = [(g, sbb, st_, agg) for g, sbb, st_, agg in csend]
    for g, sbb, st_, agg in cans:
        s = st_
        idr = P.root(P._field(agg, 'request_id'))
        from_q = bool(idr) and all((P.is_call(r, 'poll_next_unpin', 'Stream::poll_next', 'UnboundedReceiver::poll_recv', 'CanceledRequests::poll_recv')) for r, _ in idr)
        R.ob('C03.cancel', ('dispatch poll', 'cancel id comes from the cancellation queue'), from_q, 'the id in a Cancel message is an id taken from the cancellation queue', [g.loc(s)],
             str([P.describe(r) for r, _ in idr]))
        tcr = P.root(P._field(agg, 'trace_context'))
        hit = bool(tcr)
        for r, p in tcr:
            if not (P.is_call(r, 'HashMap::remove', 'HashMap::remove_entry') and ('v', 'Some') in p):
                hit = False
                continue
            kr = {x for x, _ in P.root(P.args_of(r)[1])}
            if kr != {x for x, _ in idr}:
                hit = False
        R.ob('C03.cancel', ('dispatch poll', 'cancel only for an in-flight request'), hit,
             'a Cancel is built only from the entry removed (hit edge) from the in-flight table under that same id: only transmitted, unfinished requests, and at most once', [g.loc(s)])
        # the removal used is a cancelling one: it does not complete the caller
        for r, p in tcr:
            ru = P.unbound(r)
            if ru[0] == 'call':
                m = F.enclosing_item(F.fns[ru[1]])
                # the table's entry point through which the dispatch reached this removal (the removal itself may sit in a helper)
                id_roots = {P.unbound(x) for x, _ in idr}
                for h_ in reach:
                    for b2_, t2 in h_.calls():
                        mm = F.callee_fn(t2)
                        if mm is None or not any(mm.id == x.id for x in table.methods) or table.is_helper(mm):
                            continue
                        if not any(b_.id == ru[1] for b_ in table.bodies(mm)):
                            continue
                        if any({P.unbound(x) for x, _ in P.root(P.operand(h_, a_, at=b2_))} == id_roots for a_ in t2['args'][1:]):
                            m = mm    # the table method the dispatch calls with the id taken from the cancellation queue
                bodies_m = table.bodies(m) if any(m.id == mm.id for mm in table.methods) else F.with_descendants(m)
                no_send = not any(callee_is(t2, 'oneshot::Sender::send') for x in bodies_m for _, t2 in x.calls())
                timer = any(callee_is(t2, 'DelayQueue::remove', 'DelayQueue::try_remove') for x in bodies_m for _, t2 in x.calls())
                R.ob('C03.cancel', ('client table cancelling removal', 'forgets without completing'), no_send and timer,
                     'the cancelling removal drops the entry and its timer and does not resolve the (abandoned) call', [m.loc(m.d)])
        R.ob('C03.cancel', ('dispatch poll', 'cancel is written'), True, 'the Cancel message is handed to the transport', [g.loc(st_)])

    # ------------------------------------------------------------------ 6b. who may forget a request without resolving its call
    # An entry leaves the client table either by resolving the call (response, expiry, shutdown: the removal's bodies send on the completion channel) or silently.
    # A silent removal is legitimate only for an id taken from the cancellation queue, because only there the Cancel follows (C03.cancel / C03.owed).  Any other
    # silent removal — a sweep of "abandoned" entries, a removal by predicate — forgets a transmitted request whose later cancellation then finds no entry: no Cancel.
    is_q = lambda r: P.is_call(r, 'poll_next_unpin', 'Stream::poll_next', 'UnboundedReceiver::poll_recv', 'CanceledRequests::poll_recv')
    n_silent = 0
    for m in table.removing():
        if table.is_helper(m) or (m.impl_of and (m.impl_of.get('trait') or '').endswith('Drop')):
            continue
        if any(callee_is(t2, 'oneshot::Sender::send') for x in table.bodies(m) for _, t2 in x.calls()):
            continue
        n_silent += 1
        sites_ = [(g_, b_, t_) for g_ in F.fns.values() if not F.is_derived(g_) for b_, t_ in g_.calls() if F.callee_fn(t_) is m]
        oks_ = []
        for g_, b_, t_ in sites_:
            fromq = False
            for a_ in t_['args'][1:]:
                rs_ = P.root(P.operand(g_, a_, at=b_), through_params=True)      # the id may be handed down through private helpers of the dispatch
                if rs_ and all(is_q(r) for r, _ in rs_):
                    fromq = True
            oks_.append(fromq)
        R.ob('C03.removals', ('client table', m.npath.split('::')[-1], 'silent removal only for ids from the cancellation queue'), bool(sites_) and all(oks_),
             'a request is forgotten without resolving its call only under an id taken from the cancellation queue (where the Cancel follows): no other path drops a transmitted request\'s entry',
             [g_.loc(t_) for (g_, _, t_), o_ in zip(sites_, oks_) if not o_] or [m.loc(m.d)])
    R.ob('C03.removals', ('client table', 'cancelling removal found'), n_silent >= 1, 'the client table has an entry point that removes without resolving (the cancelling removal)', [poll.loc(poll.d)], '%d' % n_silent)

    # ------------------------------------------------------------------ 7. a consumed cancellation is written (or the connection ends) — E-SHAPE
    owed_rule(ctx, 'C03.owed', poll)
    from .shape_common import run_jobs
    # the cancellation queue is consumed: registered on every idle return (only a pending write-side poll may postpone it), and the
    # write side is closed only after it ended
    from .wake import source_jobs, pending_states, source_ok
    poll2, reach2, jobs = source_jobs(F, P, ('K',), extra=[{'key': 'close', 'aut': ('close',)}])
    wres = run_jobs(F, jobs)
    keys = pending_states(wres['K'])
    badk = [k for k in keys if not source_ok('K', k)]
    R.ob('C03.queue', ('dispatch poll', 'cancellation queue registered on every idle return'), not badk and len(keys) >= 2,
         'the dispatch goes idle only with the cancellation queue polled last with Pending (or ended), or while a write-side poll is pending: in particular not merely because the in-flight table is full',
         [poll.loc(poll.d)], 'offending exit states (last outcome, w_wait, drain, at_capacity): %s' % badk)
    cb = [k for k in wres['close']['viol'] if k[0] == 'CLOSE_BEFORE_BOTH_QUEUES_CLOSED']
    R.ob('C03.queue', ('dispatch poll', 'write side closed only after the cancellation queue ended'), not cb,
         'queued cancellations are written before the transport is closed: poll_close is reached only with the cancellation queue at Ready(None)',
         sorted({s_ for k in cb for s_ in wres['close']['viol'][k]}), str([k[1:] for k in cb]))
    # the Cancel write's failure is terminal (the "connection lost" exemption)
    for g, sbb, st_, agg in csend:
        rets = deep_roots(P, P._local_whole(g, 0), inline=False)
        ok = any(P.unbound(r) == ('call', g.id, sbb) and (('t', '?err') in p or ('t', 'errval') in p or ('v', 'Err') in p) for r, p in rets)
        R.ob('C03.cancel', ('dispatch poll', 'a failed cancel write ends the dispatch'), ok,
             'if the Cancel cannot be written the error is returned (the connection is given up) rather than silently dropped', [g.loc(st_)])


def _base_ty(f, pl):
    return f.local_ty(pl['l'])


class OwedCancelAut:
    """idle -> taken (id read from the cancellation queue) -> owed (its entry was removed: a Cancel must follow) -> idle (written)"""
    name = 'owed'

    def init(self):
        return 'idle'

    def step(self, aut, ev, shape, site, X):
        if ev[0] == 'K' and 'Some' in repr(shape):
            if aut == 'owed':
                X.violation(('CANCEL_DROPPED_BEFORE_NEXT',), site)
            return 'taken'
        if ev == ('M', 'remove') and aut == 'taken':
            return 'owed' if 'Some' in repr(shape) else 'idle'
        if ev == ('W', 'start_send') and aut == 'owed':
            return 'idle'
        return aut
