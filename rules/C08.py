"""C08 One handler and at most one response per request — E-PROV / E-Q / E-CFG (+ witness in thorough)."""
from engine.facts import CannotDecide, callee_is, path_matches
from engine import cfg
from .common import reachable_local_fns, norm_path, guarded_by_variant, result_of, in_module
from .server_common import Server

EXTRA_CONFIGS = ('default', 'tokio1', 'serde1', 'serde-transport')   # feature configurations re-analysed in the thorough tier
META = {
    'level': 'other',
    'technique': 'static edge-guard (Vacant/Ok/Some) and provenance rules over MIR; impl-table typestate query (no Clone, by-value execute); who-may-call / who-may-construct',
    'text': 'Decides on every path: a request is registered only on the Vacant edge of the id lookup, and everything registration does (timer, abort pair, entry) is on that edge; the channel '
            'yields a request only built from the Ok payload of that registration, a duplicate id has no effect; execution consumes the in-flight request by value and none of '
            'InFlightRequest / TrackedRequest / ResponseGuard is Clone, so one yielded request can be executed at most once; execute sends exactly one response carrying the request\'s own '
            'id and the handler\'s result; the only writer to the server transport is the channel\'s guarded start_send (C04.tracked) and responses are constructed only by execute and the throttler; in every activation of the request stream the deadline timers are polled before any response is handed to the transport (C08.order, shared with C06.order; the limiter chains are known finding D5).',
    'note': 'Trusted: HashMap entry API; Rust move semantics. The guarded single write per id is C04.tracked; the compile-fail witness for double execution runs in the thorough tier. Known finding D5 (with MaxRequests at its limit a buffered response can be written before expiry was processed in that activation).',
}


def run(ctx):
    F, P, R = ctx.F, ctx.P, ctx.run
    R.explanation = META['text']
    R.rule_text = 'one obligation per (entry point / method, clause)'
    R.assumptions = ['HashMap::entry Vacant means the id is not stored']
    R.info['configs'] = ['full']
    S = Server(F, P)
    T = S.table
    ins = S.insert

    # (1a) registration effects only when the id is absent: the Vacant edge of `entry(id)`, or the false edge of `contains_key(&id)`
    from .common import guarded_by_bool
    ent = [(g, bb, t) for g in T.bodies(ins) for bb, t in g.calls() if callee_is(t, 'HashMap::entry', 'HashMap::contains_key')]
    R.ob('C08.vacant', ('server table insert', 'looks the id up first'), len(ent) == 1, 'registration starts with a lookup of the id', [g.loc(t) for g, _, t in ent] or [ins.loc(ins.d)])
    if len(ent) == 1:
        eg, ebb, et = ent[0]
        by_entry = callee_is(et, 'HashMap::entry')
        pred = lambda x: result_of(P, x, ('call', eg.id, ebb))
        absent = (lambda bb_: bool(guarded_by_variant(F, P, eg, bb_, pred, ['Vacant']))) if by_entry else (lambda bb_: bool(guarded_by_bool(F, P, eg, bb_, pred, False)))
        lk = {P.unbound(r) for r, _ in P.root(P.operand(eg, et['args'][1], at=ebb))}
        for bb, t in eg.calls():
            if callee_is(t, 'hash_map::VacantEntry::insert', 'DelayQueue::insert', 'AbortHandle::new_pair', 'HashMap::insert', 'hash_map::OccupiedEntry::insert',
                         'DelayQueue::reset', 'DelayQueue::reset_at', 'DelayQueue::remove', 'DelayQueue::try_remove', 'AbortHandle::abort', 'hash_map::OccupiedEntry::remove'):
                R.ob('C08.vacant', ('server table insert', 'effect only on Vacant', t['callee'].split('::')[-1] + '@' + t['callee'].split('::')[-2]), absent(bb),
                     'the entry, its timer and its abort pair are created (and nothing of an existing request is touched) only when the id is not already in flight', [eg.loc(t)])
        if by_entry:
            vi = [(bb, t) for bb, t in eg.calls() if callee_is(t, 'hash_map::VacantEntry::insert')]
            plain = ('HashMap::insert',)
        else:
            # after `contains_key(&id)` answered false, a plain insert under the very same id stores a fresh entry
            vi = [(bb, t) for bb, t in eg.calls() if callee_is(t, 'HashMap::insert')
                  and {P.unbound(r) for r, _ in P.root(P.operand(eg, t['args'][1], at=bb))} == lk and lk]
            plain = ()
            other = [(bb, t) for bb, t in eg.calls() if callee_is(t, 'HashMap::insert') and (bb, t) not in vi]
            R.ob('C08.vacant', ('server table insert', 'stores under the id looked up'), not other, 'the entry is stored under the id whose absence was established', [eg.loc(t) for _, t in other] or [ins.loc(ins.d)])
        R.ob('C08.vacant', ('server table insert', 'stores on Vacant'), len(vi) == 1, 'a fresh id is stored', [eg.loc(t) for _, t in vi] or [ins.loc(ins.d)])
        bad = [(bb, t) for bb, t in eg.calls() if callee_is(t, 'hash_map::OccupiedEntry::insert', 'hash_map::Entry::or_insert', 'hash_map::Entry::and_modify', 'hash_map::OccupiedEntry::get_mut', *plain)]
        R.ob('C08.vacant', ('server table insert', 'never overwrites'), not bad, 'an id that is still in flight is never overwritten', [eg.loc(t) for _, t in bad] or [ins.loc(ins.d)])
    # (1b) yielded request built only from the Ok payload of registration
    reg = S.register
    regcall = [(bb, t) for bb, t in reg.calls() if F.callee_fn(t) is ins]
    for i, j, s in reg.aggregates('server::TrackedRequest'):
        ok = len(regcall) == 1
        if ok:
            pred = lambda x: result_of(P, x, ('call', reg.id, regcall[0][0]), through=('Result::map_err', 'Result::inspect_err'))   # error mapping keeps Ok-ness
            ok = bool(guarded_by_variant(F, P, reg, i, pred, ['Ok', 'Continue']))
        R.ob('C08.yield', ('BaseChannel request registration', 'tracked request only on Ok'), ok, 'a TrackedRequest exists only if the id was freshly stored', [reg.loc(s)])
    pn = S.poll_next
    reach = reachable_local_fns(F, pn)
    R.count('functions_analysed', len(reach) + len(T.methods) + 4)
    # what does poll_next return as Ready(Some(Ok(x)))?
    ret = P._local_whole(pn, 0)
    item = P._field(P._variant(P._field(P._variant(P._field(P._variant(ret, 'Ready'), 0, 0), 'Some'), 0, 0), 'Ok'), 0, 0)
    rs = P.root(item)
    ok = bool(rs) and all(P.unbound(r)[0] == 'agg' and P.unbound(r)[1] == reg.id and path_matches(P._agg_rv(P.unbound(r))['adt'], 'server::TrackedRequest') for r, p in rs)
    R.ob('C08.yield', ('<BaseChannel as Stream>::poll_next', 'yields only registered requests'), ok,
         'every request the channel yields is the Ok payload of a registration', [pn.loc(pn.d)], str([P.describe(r) + str(list(norm_path(p))) for r, p in rs]))
    # the request registered is the one read from the transport
    for bb, t in pn.calls():
        if F.callee_fn(t) is reg:
            ar = P.root(P.operand(pn, t['args'][1], at=bb))
            ok = bool(ar) and all(S.is_transport_item(r) and ('v', 'Request') in p for r, p in ar)
            R.ob('C08.yield', ('<BaseChannel as Stream>::poll_next', 'registers the request just read'), ok, 'the request registered is the Request message read from this channel\'s transport', [pn.loc(t)])
            # duplicate edge: no return of Some on the Err edge
            pred = lambda x: result_of(P, x, ('call', pn.id, bb))
            rets = []
            for i, j, s in pn.stmts():
                if s['rv']['k'] == 'agg' and s['rv']['variant'] == 'Ok' and s['rv']['adt'].endswith('Result'):
                    if any(result_of(P, P._variant_base(P.operand(pn, o, at=i)), ('call', pn.id, bb)) for o in s['rv']['ops']):
                        rets.append((i, s))
            ok = len(rets) >= 1 and all(guarded_by_variant(F, P, pn, i, pred, ['Ok']) for i, s in rets)
            R.ob('C08.yield', ('<BaseChannel as Stream>::poll_next', 'duplicate ids are skipped'), ok,
                 'the yield happens on the Ok edge of registration only; a request reusing an in-flight id is ignored', [pn.loc(s) for _, s in rets] or [pn.loc(t)])

    # (1c) every Request message read is registered: no path from the Request arm skips the registration
    # (judged in the body that polls the transport: the stream's poll itself or a private helper it delegates the inbound step to)
    tb = pn
    for g_ in reach:
        if any(callee_is(t_, 'Stream::poll_next') and 'Fuse<' in (t_.get('self_ty') or '') for _, t_ in g_.calls()):
            tb = g_
    tp = [(bb, t) for bb, t in tb.calls() if callee_is(t, 'Stream::poll_next') and 'Fuse<' in (t.get('self_ty') or '')]
    regs = [bb for bb, t in tb.calls() if F.callee_fn(t) is reg or (F.callee_fn(t) is not None and F.callee_fn(t).id != tb.id and any(x.id == reg.id for x in reachable_local_fns(F, F.callee_fn(t), depth=2)))]
    ok = len(tp) == 1 and len(regs) >= 1
    arm = None
    if ok:
        item = ('call', tb.id, tp[0][0])
        for i, b in enumerate(tb.blocks):
            if b['cleanup'] or b['term']['k'] != 'switch':
                continue
            d = b['term']['discr']
            if d['k'] not in ('copy', 'move'):
                continue
            tt = P.operand(tb, d, at=i)
            if tt[0] != 'discr':
                continue
            ety = None
            for st in b['stmts']:
                if st['rv']['k'] == 'discr':
                    ety = st['rv'].get('ty')
            if not ety or 'ClientMessage' not in ety:
                continue
            rs = P.root(tt[1])
            if rs and all(P.unbound(r) == item for r, _ in rs):
                from .common import variant_values
                vals = variant_values(F, ety, ['Request'])
                if vals:
                    arm = dict((v, x) for v, x in b['term']['targets']).get(vals[0], b['term']['otherwise'])
        ok = arm is not None and cfg.all_paths_pass(tb, arm, set(cfg.exits(tb)) | {tp[0][0]}, set(regs))
    R.ob('C08.yield', ('<BaseChannel as Stream>::poll_next', 'every request read is registered'), ok,
         'every path from the Request arm of the message just read goes through the registration (no request is silently discarded before the id lookup)', [tb.loc(tb.d)])

    # (2b) "only a request whose id is still in flight may be ignored": a Cancel read from the transport takes effect before the next message is read —
    # the removal is called in the Cancel arm itself with the id just read, on every path from the arm to the next read / return.  (Deferring it through a
    # queue lets a Request that reuses the id, read next, be dropped as a duplicate of a request the peer had already cancelled.)
    cs = S.cancel_sites
    ok = bool(cs)
    if ok and len(tp) == 1:
        carm = None
        for i, b in enumerate(tb.blocks):
            if b['cleanup'] or b['term']['k'] != 'switch':
                continue
            d_ = b['term']['discr']
            if d_['k'] not in ('copy', 'move'):
                continue
            tt = P.operand(tb, d_, at=i)
            if tt[0] != 'discr':
                continue
            ety = None
            for st_ in b['stmts']:
                if st_['rv']['k'] == 'discr':
                    ety = st_['rv'].get('ty')
            if not ety or 'ClientMessage' not in ety:
                continue
            rs = P.root(tt[1])
            if rs and all(P.unbound(r) == item for r, _ in rs):
                from .common import variant_values
                vals = variant_values(F, ety, ['Cancel'])
                if vals:
                    carm = dict((v, x) for v, x in b['term']['targets']).get(vals[0], b['term']['otherwise'])
        in_pn = S.cancel_blocks_in(tb)
        ok = carm is not None and bool(in_pn) and cfg.all_paths_pass(tb, carm, set(cfg.exits(tb)) | {tp[0][0]}, in_pn)
    R.ob('C08.cancel', ('<BaseChannel as Stream>::poll_next', 'a Cancel read from the transport is applied before the next message is read'), ok,
         'every path from the Cancel arm of the message just read calls the table\'s aborting removal with that id before the transport is read again or the poll returns',
         [g.loc(t) for g, _, t, _ in cs] or [tb.loc(tb.d)])

    # (3) typestate
    ex = S.execute
    by_value = not ex.local_ty(1).startswith('&')
    R.ob('C08.once', ('InFlightRequest::execute', 'consumes the request'), by_value and 'InFlightRequest' in ex.local_ty(1), 'execute takes the in-flight request by value', [ex.loc(ex.d)], ex.local_ty(1))
    for ty in ('server::InFlightRequest', 'server::TrackedRequest', 'server::ResponseGuard', 'client::ResponseGuard'):
        R.ob('C08.once', (ty, 'not Clone'), not F.has_impl('Clone', ty) and not F.has_impl('Copy', ty), '%s cannot be duplicated' % ty, [])
    # (2) one InFlightRequest per TrackedRequest
    ifr = list(F.all_aggregates('server::InFlightRequest'))
    R.ob('C08.once', ('server::InFlightRequest', 'constructed at one site'), len(ifr) == 1, 'in-flight requests are built only by the request stream, one per yielded request', [g.loc(s) for g, _, _, s in ifr])
    for g, i, j, s in ifr:
        R.ob('C08.once', ('Requests stream', 'not built in a loop of its own'), not cfg.on_cycle(g, i), 'one tracked request gives one in-flight request', [g.loc(s)])

    # (4) exactly one response with the request's id
    from .common import deep_bodies
    exb = deep_bodies(F, ex)
    sends = [(g, bb, t) for g in exb for bb, t in g.calls() if callee_is(t, 'mpsc::Sender::send')]
    R.ob('C08.response', ('InFlightRequest::execute', 'one response send'), len(sends) == 1, 'execute hands over exactly one response', [g.loc(t) for g, _, t in sends] or [ex.loc(ex.d)])
    for g, bb, t in sends:
        R.ob('C08.response', ('InFlightRequest::execute', 'send not repeated'), not cfg.on_cycle(g, bb), 'the response send is not inside a loop', [g.loc(t)])
        rr = [r for r, _ in P.root(P.operand(g, t['args'][1], at=bb))]
        ok = len(rr) == 1 and P.unbound(rr[0])[0] == 'agg' and path_matches(P._agg_rv(P.unbound(rr[0]))['adt'], 'Response')
        if ok:
            idr = P.root(P._field(rr[0], 'request_id'), through_params=True, callers={x.id for x in exb})   # through a named async fn / helper of execute
            ok = bool(idr) and all(r == ('param', ex.id, 1) and P.fpath(p) == ('request', 'id') for r, p in idr)
            mr = P.root(P._field(rr[0], 'message'))
            okm = bool(mr) and all(P.is_call(r, 'server::Serve::serve') and ('t', 'await') in p for r, p in mr)
            R.ob('C08.response', ('InFlightRequest::execute', 'response body is the handler\'s result'), okm, 'the message sent is what the handler returned', [g.loc(t)])
        R.ob('C08.response', ('InFlightRequest::execute', 'response carries the request\'s id'), ok, 'the response is addressed with the id of the request being executed', [g.loc(t)])
        # the send happens after the handler completed
        serves = [(bb2, t2) for bb2, t2 in g.calls() if callee_is(t2, 'server::Serve::serve')]
        from engine.asyncs import await_of_call
        ok = len(serves) == 1
        if ok:
            a = await_of_call(P, g, serves[0][0])
            ok = a is not None and a['ready_bb'] is not None and cfg.dominates(g, a['ready_bb'], bb)
        R.ob('C08.response', ('InFlightRequest::execute', 'response only after the handler finished'), ok, 'a response is produced only once the single handler invocation has completed', [g.loc(t)])

    # (5) who writes to the server transport / who constructs responses
    ss = S.start_send
    writers = [(g, t) for g, bb, t in F.all_calls('Sink::start_send') if 'Fuse<' in (t.get('self_ty') or '') and in_module(g, 'server')]
    bad = [(g, t) for g, t in writers if g.id != ss.id]
    R.ob('C08.writers', ('server transport', 'single writer'), not bad and len(writers) == 1, 'the only code that writes to a server channel\'s transport is the guarded start_send', [g.loc(t) for g, t in bad] or [ss.loc(ss.d)])
    ctors = [(g, s) for g, i, j, s in F.all_aggregates('Response') if path_matches(s['rv']['adt'], 'Response') and s['rv']['adt'].count('::') == 0]
    def only_called_from_allowed(g, depth=4):
        if g.id.startswith(ex.id) or 'requests_per_channel' in g.id:
            return True
        if depth == 0:
            return False
        item = F.enclosing_item(g)
        callers = [h for h in F.fns.values() for _, t2 in h.calls() if F.callee_fn(t2) is item]
        return bool(callers) and all(only_called_from_allowed(h, depth - 1) for h in callers)
    okc = all(only_called_from_allowed(g) for g, s in ctors) and len(ctors) >= 2
    R.ob('C08.writers', ('Response', 'constructors'), okc, 'responses are constructed only by execute and by the request limiter', [g.loc(s) for g, s in ctors])
    from .server_common import guard_always_disarmed
    guard_always_disarmed(ctx, 'C08.once', S)
    # every request the request stream reads from its channel is yielded to the application (E-SHAPE)
    from .shape_common import run_jobs, server_chains, chain_name
    rp = S.requests_poll
    chains = [c for c in server_chains(F) if len(c) <= (2 if ctx.tier == 'quick' else 3)]
    res = run_jobs(F, [{'key': chain_name(ch), 'entry': rp.id, 'aut': ('custom', YieldAut), 'chain': ch, 'boundary': yield_boundary} for ch in chains])
    for ch in chains:
        r = res[chain_name(ch)]
        R.count('states_explored', r['stats'].get('states', 0))
        lost = sorted({repr(ret)[:40] for (ret, e, lab) in r['exits'] if e[0] == 'got' and not (isinstance(ret, tuple) and ret[0] == 'Ready' and isinstance(ret[1], tuple) and ret[1][0] == 'Some')})
        R.ob('C08.yield', ('Requests<%s>::poll_next' % chain_name(ch), 'a request read from the channel is yielded'), not lost and not r['viol'],
             'whenever the channel\'s stream hands a tracked request to the request stream in an activation, that activation returns it (it is never dropped because a response was written in the same iteration)',
             sorted({s_ for v in r['viol'].values() for s_ in v}) or [rp.loc(rp.d)], 'exits after reading a request: %s %s' % (lost, list(r['viol'])))
    # a response is transmitted only for a request that is still tracked — at most one per request, none after a cancel or an expiry
    from .server_common import tracked_gate
    tracked_gate(ctx, 'C08.tracked', S)
    # "a response is transmitted only if the handler finished before the request expired": in every activation of the request stream the deadline timers are polled
    # (and expired entries forgotten) before any response is handed to the transport, so the tracked gate above also filters a request whose deadline has just
    # passed (rule shared with C06.order; the limiter chains are known finding D5)
    from .C06 import order_rule
    order_rule(ctx, 'C08.order')


class YieldAut:
    name = 'yield'

    def init(self):
        return 'idle'

    def step(self, aut, ev, shape, site, X):
        if ev[0] == 'I':
            ok_item = isinstance(shape, tuple) and shape[0] == 'Ready' and isinstance(shape[1], tuple) and shape[1][0] == 'Some' and isinstance(shape[1][1], tuple) and shape[1][1][0] == 'Ok'
            if aut == 'got':
                X.violation(('REQUEST_DROPPED_BEFORE_NEXT_READ',), site)
            return 'got' if ok_item else 'idle'
        return aut


def yield_boundary(t, f, callee_f, level, nlevel):
    # the devirtualised call from the request stream into its channel's Stream::poll_next
    if level == 0 and nlevel == 1 and (t.get('callee') or '').endswith('Stream::poll_next'):
        return ('I', 'poll_next')
    return None
