"""C14 tarpc honours the pluggable transport's contract — E-SHAPE sink typestate, idle flush, no spin."""
import time
from engine.facts import callee_is, CannotDecide
from engine.shape import Explorer, STAR, Budget
from .shape_common import classify, SinkAut, find_cell_accessors, server_chains, chain_name, run_jobs

EXTRA_CONFIGS = ('default', 'tokio1', 'serde1', 'serde-transport')   # feature configurations re-analysed in the thorough tier
META = {
    'level': 'other',
    'technique': 'static typestate analysis: explicit-state abstract interpretation of the MIR (shape walker) with a sink automaton, functional summaries, devirtualisation over channel decorator chains, may/must event labels for the no-spin cycle rule',
    'text': 'Decides on every abstract path of one activation of the client dispatch poll and of the server request stream (over every channel decorator chain: BaseChannel, MaxRequests<..>, '
            'TrackedChannel<..> and their compositions): (a) start_send happens only when the most recent sink event is a poll_ready that returned Ready(Ok); (b) nothing is written after '
            'poll_close completed or after a readiness/flush/close error; (c) every Pending exit has no item written since the last completed flush unless that flush itself is pending; '
            '(d) no cycle of the state graph that lacks a must-progress edge (item dequeued, frame read, timer fired, item written) re-observes a Pending poll_ready — i.e. tarpc never '
            'retries a not-ready transport within one poll (defect D4, fixed); (e) the Sink impls of BaseChannel and of the decorators hand poll_ready / poll_flush / poll_close to the same-named operation of what they wrap; (f) tarpc\'s own consumer of the request stream stops at its first error item, so nothing is written after a reported failure (C14.stop). The abstraction over-approximates: outcomes of every transport/queue/timer call are forked over all shapes.',
    'note': 'Trusted: shape models of std combinators (Appendix B of DESIGN.md), tokio mpsc and futures Fuse stay ended once ended. Progress-driven re-polls of poll_ready after a Pending '
            '(bounded by input) are recorded, not reported.',
}


def judge(ctx, res, entry, tag, name, pending_rule=True):
    R = ctx.run
    exits = res['exits']
    viol = res['viol']
    kinds = {}
    for k in viol:
        kinds.setdefault(k[0], []).append(k)
    R.ob(tag + '.ready', (name, 'start_send only after poll_ready = Ready(Ok)'), 'START_SEND_WITHOUT_READY' not in kinds,
         'every item is written only after the transport reported readiness for it', sorted({s for k in kinds.get('START_SEND_WITHOUT_READY', []) for s in viol[k]}),
         str(kinds.get('START_SEND_WITHOUT_READY')))
    after = [k for kk in ('WRITE_AFTER_FAILED', 'WRITE_AFTER_CLOSED') for k in kinds.get(kk, [])]
    R.ob(tag + '.after', (name, 'no write after close or failure'), not after,
         'nothing is written after the transport was closed or reported a readiness, flush or close failure', sorted({s for k in after for s in viol[k]}), str(after))
    if pending_rule:
        # exits taken while a terminal error is being delivered (the cell holding it is Some) are exempt:
        # the transport has failed and the dispatch is only draining its queue
        terminal = lambda e: any(isinstance(v, tuple) and v and v[0] == 'Some' for _, v in e[1])
        bad = [(ret, e[0]) for (ret, e, lab) in exits if ret == 'Pending' and e[0][1] and not e[0][2] and e[0][0] not in ('failed', 'closed') and not terminal(e)]
        R.ob(tag + '.flush', (name, 'no idle with unflushed items'), not bad,
             'every Pending exit has flushed what was written (or the flush itself is pending)', [entry.loc(entry.d)], str(sorted(set(bad)))[:400])
    spin = res['spin']
    sites = []
    for fid in spin:
        g = ctx.F.fns[fid]
        sites.append('%s (%s)' % (g.loc(g.d), g.npath))
    R.ob(tag + '.spin', (name, 'no retry of a not-ready transport within one poll'), not spin,
         'no progress-free cycle re-polls readiness after it returned Pending: the task returns to the executor and waits to be woken', sites,
         'cycles without a must-progress edge containing poll_ready=Pending in: %s' % sorted(ctx.F.fns[k].npath for k in spin))
    R.count('states_explored', res['stats'].get('states', 0))
    R.count('summaries', res['summaries'])
    R.count('pending_exit_states', sum(1 for (ret, e, lab) in exits if ret == 'Pending'))
    R.count('repolls_after_close_or_failure', res['stats'].get('repolls_after_closed', 0) + res['stats'].get('repolls_after_failed', 0))
    um = R.info.setdefault('unmodelled_calls', {})
    for k, v in res['unmodelled'].items():
        um[k] = um.get(k, 0) + v


def run(ctx):
    F, P, R = ctx.F, ctx.P, ctx.run
    R.explanation = META['text']
    R.rule_text = 'one obligation per (entry point x decorator chain, clause); states explored to fixpoint; non-trivial = an entry/chain actually explored'
    R.assumptions = ['shape models of std combinators', 'unknown callees may return any shape of their result type']
    R.info['configs'] = ['full']
    depth = 4 if ctx.tier == 'quick' else 5
    # client
    poll = F.trait_method('Future', 'client::RequestDispatch', 'poll')
    acc, fields = find_cell_accessors(F, P, 'client::RequestDispatch', lambda t: t.startswith('std::option::Option<') and 'ChannelError' in t)
    cells = []
    if fields:
        name = sorted(fields)[0]
        cells = [((name, 'None'),), ((name, ('Some', STAR)),)]
    else:
        cells = [()]
    rp = F.trait_method('Stream', 'server::Requests', 'poll_next')
    chains = server_chains(F)
    if ctx.tier == 'quick':
        chains = [c for c in chains if len(c) <= 2]
    R.info['chains'] = [chain_name(c) for c in chains]
    jobs = [{'key': 'client', 'entry': poll.id, 'aut': ('sink',), 'acc': acc, 'cells': cells, 'depth': depth}]
    for ch in chains:
        jobs.append({'key': chain_name(ch), 'entry': rp.id, 'aut': ('sink',), 'chain': ch, 'depth': depth})
    res = run_jobs(F, jobs)
    judge(ctx, res['client'], poll, 'C14', 'client dispatch poll')
    for ch in chains:
        judge(ctx, res[chain_name(ch)], rp, 'C14', 'Requests<%s>::poll_next' % chain_name(ch))
    # the server's Sink wrappers hand each operation to the same operation of what they wrap (a decorator that flushed instead of closing, or readied instead of
    # flushing, would make the chain's contract use differ from the base channel's)
    from .common import sink_delegation
    n_del = sink_delegation(ctx, 'C14.delegate', ['server::BaseChannel', 'requests_per_channel::MaxRequests', 'channels_per_key::TrackedChannel'])
    if n_del < 9:
        raise CannotDecide('sink delegation sites: %d (floor 9)' % n_del)
    # "return control to the executor and wait to be woken": neither endpoint wakes its own task.  A poll function that calls wake / wake_by_ref on the
    # waker of the context it was polled with is re-polled at once, i.e. it retries the not-ready transport in a busy loop across polls
    own = []
    for f in F.fns.values():
        if F.is_derived(f) or not (f.id.startswith('tarpc::client') or f.id.startswith('tarpc::server')):
            continue
        for bb, t in f.calls():
            if callee_is(t, 'Waker::wake_by_ref', 'Waker::wake', 'task::Waker::wake_by_ref', 'task::Waker::wake') and not t.get('expn'):
                rs = P.root(P.operand(f, t['args'][0], at=bb), through_params=True)
                # the waker of a poll context (Context::waker of a parameter), as opposed to a waker stored for another task
                if not (rs and all(P.is_call(r, 'Context::waker') or (r[0] == 'param' and 'Context' in F.fns[r[1]].local_ty(r[2])) for r, _ in rs)):
                    continue
                # ... on the edge where the transport just reported that it is not ready (a self-wake after real progress, to yield, is not judged here)
                from .common import guarded_by_variant, guarded_by_bool
                is_ready_poll = lambda x: any(P.is_call(r, 'Sink::poll_ready') or (P.unbound(r)[0] == 'call' and F.callee_fn(P.call_term(P.unbound(r))) is not None
                                              and any(callee_is(t2, 'Sink::poll_ready') for _, t2 in F.callee_fn(P.call_term(P.unbound(r))).calls()))
                                              for r, _ in P.root(x, inline=False))
                pend_bool = lambda x: any(P.is_call(r, 'Poll::is_pending') and is_ready_poll(P.args_of(r)[0]) for r, _ in P.root(x, inline=False))
                rdy_bool = lambda x: any(P.is_call(r, 'Poll::is_ready') and is_ready_poll(P.args_of(r)[0]) for r, _ in P.root(x, inline=False))
                if guarded_by_variant(F, P, f, bb, is_ready_poll, ['Pending']) or guarded_by_bool(F, P, f, bb, pend_bool, True) or guarded_by_bool(F, P, f, bb, rdy_bool, False):
                    own.append(f.loc(t))
    R.ob('C14.selfwake', ('client and server poll functions', 'never wake their own task after a not-ready transport'), not own,
         'on the edge where poll_ready returned Pending no poll function wakes the waker of the context it was polled with: they wait for the transport\'s wake-up instead of being re-polled at once', own)
    # the request stream does not remember a failed transport operation itself (it reports the error as an item): tarpc's own consumer stops at the first
    # error item, so nothing is written to a transport after it reported a readiness, flush or close failure (rule shared with C09.server)
    from .C09 import stops_at_first_error
    stops_at_first_error(ctx, 'C14.stop')
