"""C05 Client enforces request deadlines, never early — arming / expiry structure."""
from engine.facts import CannotDecide, callee_is, path_matches
from .common import MAP_REMOVALS, Table, client_dispatch_poll, reachable_local_fns, norm_path
from .deadlines import arming_rules, expiry_rules
from .C01 import value_shapes

EXTRA_CONFIGS = ('default', 'tokio1', 'serde1', 'serde-transport')   # feature configurations re-analysed in the thorough tier
META = {
    'level': 'other',
    'technique': 'static provenance of the timer duration and who-may-construct/who-may-complete rules over MIR',
    'text': 'Decides the structure that makes client deadlines right: the timer is armed at transmission with the call\'s own deadline minus a fresh now (so queueing time counts; optional '
            'constant upper bound), keyed by the request id, and its key is remembered by the entry; DeadlineExceeded is constructed at exactly one place, the closure handed to the expiry '
            'poll, and is delivered only to the entry whose timer fired (Some edge of poll_expired); every completing or cancelling removal also removes the timer, and a timer is removed only together with its entry (C05.timers: no left-over timer fires on a later request reusing the id, no live request loses its timer through a key kept aside), so a processed reply wins and an unanswered call still fails at its deadline.',
    'note': 'Trusted: tokio-util DelayQueue fires no earlier than the armed duration (ms granularity). Not decided: timing itself. Deadlines beyond the one-year clamp of fix D2 fire at the clamp.',
}


def run(ctx):
    F, P, R = ctx.F, ctx.P, ctx.run
    R.explanation = META['text']
    R.rule_text = 'one obligation per (table method / site, clause); provenance by backward slicing through helper calls (TimeUntil is inlined)'
    R.assumptions = ['DelayQueue never fires early', 'Instant::duration_since saturates']
    R.info['configs'] = ['full']
    table, ins, arms = arming_rules(ctx, 'C05', 'client')
    exp = expiry_rules(ctx, 'C05', 'client', table)
    # the deadline given to the table is the dequeued call's ctx (no re-basing between call and transmission)
    poll = client_dispatch_poll(F)
    reach = reachable_local_fns(F, poll)
    R.count('functions_analysed', len(reach))
    ctx_param = [k for k in range(1, ins.argc + 1) if ins.local_ty(k).endswith('context::Context')][0]
    sites = [(g, bb, t) for g in reach for bb, t in g.calls() if F.callee_fn(t) is ins]
    R.ob('C05.carry', ('dispatch poll', 'registration sites'), len(sites) >= 1, 'the dispatch registers transmitted requests in the table', [g.loc(t) for g, _, t in sites] or [poll.loc(poll.d)])
    for g, bb, t in sites:
        from .common import lifter
        rs = P.root(lifter(F, P, reach)(g, P.operand(g, t['args'][ctx_param - 1], at=bb)))
        ok = bool(rs) and all(P.is_call(r, 'mpsc::Receiver::poll_recv') for r, p in rs)
        R.ob('C05.carry', ('dispatch poll', 'deadline carried unchanged from the call'), ok,
             'the context registered (and thus the deadline armed) is the queued call\'s, unchanged', [g.loc(t)])
    # DeadlineExceeded: who may construct, and where it may flow
    ctors = list(F.all_aggregates('client::RpcError', 'DeadlineExceeded'))
    R.ob('C05.expiry', ('RpcError::DeadlineExceeded', 'single constructor'), len(ctors) == 1,
         'the deadline error is produced at exactly one place', [g.loc(s) for g, _, _, s in ctors] or [poll.loc(poll.d)])
    for g, i, j, s in ctors:
        # the constructing closure is an argument of the call to the expiring method
        ok = False
        if g.kind == 'Closure':
            for a in P.closure_sites().get(g.id, []):
                pf = F.fns[a[1]]
                dst = pf.blocks[a[2]]['stmts'][a[3]]['pl']['l']
                for bb, t in pf.calls():
                    if F.callee_fn(t) is exp:
                        for arg in t['args']:
                            if arg['k'] in ('move', 'copy') and arg['pl']['l'] == dst:
                                ok = True
                            else:
                                for r, p in P.root(P.operand(pf, arg, at=bb)):
                                    if r == a:
                                        ok = True
        R.ob('C05.expiry', ('RpcError::DeadlineExceeded', 'only handed to the expiry poll'), ok,
             'the deadline error is built by the closure passed to the table\'s expiry poll and nowhere else', [g.loc(s)])
    # inside the expiring method: the send uses the closure result and the removed entry's sender
    sender_field = table.data_field('oneshot::Sender')
    for g in table.bodies(exp):
        for bb, t in g.calls():
            if callee_is(t, 'oneshot::Sender::send'):
                sr = P.root(P.operand(g, t['args'][0], at=bb))
                ok = bool(sr) and all(P.is_call(r, *MAP_REMOVALS) and sender_field in P.fpath(p) for r, p in sr)
                R.ob('C05.expiry', ('client table expiry', 'completes the expired entry'), ok, 'the expiry error is sent on the sender of the entry removed for the fired timer', [g.loc(t)])
    # expiry result shape: Err only (shared with C01.5)
    for g in table.bodies(exp):
        for bb, t in g.calls():
            if callee_is(t, 'oneshot::Sender::send'):
                sh = value_shapes(ctx, P, P.operand(g, t['args'][1], at=bb))
                R.ob('C05.expiry', ('client table expiry', 'delivers an error'), sh <= {'Err'}, 'an expired call resolves with an error, never Ok', [g.loc(t)], str(sorted(sh)))
    # (4) the timer source is polled (registered) on every way the dispatch goes idle — no exemption for a transport that is not ready
    from .wake import source_jobs, pending_states, source_ok
    from .shape_common import run_jobs
    poll_, reach_, jobs = source_jobs(F, P, ('T',))
    res = run_jobs(F, jobs)
    keys = pending_states(res['T'])
    bad = [k for k in keys if not source_ok('T', k)]
    R.ob('C05.poll', ('dispatch poll', 'deadline timers registered on every idle return'), not bad and len(keys) >= 2,
         'every Pending exit of the dispatch has polled the deadline timers last with Pending (or none are armed), also while the transport is not ready: an expiry is never delayed by back-pressure',
         [poll.loc(poll.d)], 'offending exit states (last timer outcome, w_wait, drain, at_capacity): %s' % bad)
    R.count('states_explored', res['T']['stats'].get('states', 0))
    # (5) entry and timer live and die together: a removal that leaves its timer armed lets the left-over timer fire on a later request that reuses the id (an
    # early deadline-exceeded); a timer removed (now or in a later batch, through a key kept aside) for an entry that is still tracked means that call never
    # fails at its deadline
    from .C11 import removal_pairing, timer_removed_with_entry
    removal_pairing(ctx, 'C05.timers', 'client')
    timer_removed_with_entry(ctx, 'C05.timers', 'client')
