"""Binders for the server side shared by C04 / C08 / C09 / C11."""
from engine.facts import CannotDecide, callee_is, path_matches
from .common import Table


class Server:
    def __init__(self, F, P):
        self.F, self.P = F, P
        self.table = Table(F, 'server')
        t = self.table
        self.insert = t.one(t.inserting(), 'inserting')
        rem = [m for m in t.removing() if not t._has(m, 'DelayQueue::poll_expired') and not (m.impl_of and (m.impl_of.get('trait') or '').endswith('Drop'))
               and not t.is_helper(m)]   # private helpers of the table are judged through the entry points that call them
        self.poll_next = F.trait_method('Stream', 'server::BaseChannel', 'poll_next')
        self.start_send = F.trait_method('Sink', 'server::BaseChannel', 'start_send')
        # roles by use, not by name or by effect: the removal reached from the Cancel arm of the channel's
        # stream, and the removal reached from the channel's sink
        from .common import reachable_local_fns
        self.cancel_sites = []
        reach_ = reachable_local_fns(F, self.poll_next)
        reach_ids = {x.id for x in reach_}
        for g in reach_:
            for bb, c in g.calls():
                m = F.callee_fn(c)
                if m in rem:
                    kp = self.key_param(m)
                    # the id may travel through private helpers of the channel: follow parameters, but only into call sites reachable from the stream's poll
                    rs = P.root(P.operand(g, c['args'][kp - 1], at=bb), through_params=True, callers=reach_ids)
                    if rs and all(self.is_transport_item(r) and ('v', 'Cancel') in p for r, p in rs):
                        self.cancel_sites.append((g, bb, c, m))
        # blocks of the stream's poll from which a cancel site is reached (the call itself, or a call to a helper that contains it)
        self.cancel_blocks = self.cancel_blocks_in(self.poll_next)
        ms = {m.id: m for _, _, _, m in self.cancel_sites}
        self.aborting = list(ms.values())[0] if len(ms) == 1 else None
        resp = {}
        for bb, c in self.start_send.calls():
            m = F.callee_fn(c)
            if m in rem:
                resp[m.id] = m
            elif m is not None and m.impl_of and m.impl_of.get('self_head') and path_matches(m.impl_of['self_head'], 'server::BaseChannel'):
                # through a private helper of the channel that wraps the table's removal
                for _, c2 in m.calls():
                    m2 = F.callee_fn(c2)
                    if m2 in rem:
                        resp[m2.id] = m2
        if len(resp) != 1:
            raise CannotDecide('removal used by <BaseChannel as Sink>::start_send: %d' % len(resp))
        self.plain = list(resp.values())[0]
        self.expiry = t.one(t.expiring(), 'expiring')
        regs = [m for m in F.fns.values() if m.impl_of and m.impl_of.get('self_head') and path_matches(m.impl_of['self_head'], 'server::BaseChannel')
                and list(m.aggregates('server::TrackedRequest'))]
        if len(regs) != 1:
            raise CannotDecide('request registration fn: %d' % len(regs))
        self.register = regs[0]
        self.execute = F.inherent('server::InFlightRequest', 'execute')
        self.requests_poll = F.trait_method('Stream', 'server::Requests', 'poll_next')

    def cancel_blocks_in(self, body):
        from .common import reachable_local_fns
        out = set()
        for g, bb, c, m in self.cancel_sites:
            if g.id == body.id:
                out.add(bb)
            else:
                for b2, c2 in body.calls():
                    h = self.F.callee_fn(c2)
                    if h is not None and any(x.id == g.id for x in reachable_local_fns(self.F, h, depth=4)):
                        out.add(b2)
        return out

    def key_param(self, m):
        """parameter of table method m that keys its HashMap operation"""
        P = self.P
        for g in self.table.bodies(m):
            for bb, t in g.calls():
                if callee_is(t, 'HashMap::remove', 'HashMap::remove_entry', 'HashMap::entry', 'HashMap::contains_key', 'HashMap::insert', 'HashMap::get', 'HashMap::get_mut'):
                    for r, p in P.root(P.operand(g, t['args'][1], at=bb), through_params=self.table.is_helper, callers={b.id for b in self.table.bodies(m)}):
                        if r[0] == 'param' and r[1] == m.id:
                            return r[2]
        raise CannotDecide('key parameter of %s' % m.id)

    def is_transport_item(self, r):
        P = self.P
        return P.is_call(r, 'Stream::poll_next') and 'Fuse<' in (P.call_term(P.unbound(r)).get('self_ty') or '')


def guard_flag_writes(F, P, flag, module='server'):
    """writes of a constant to the guard's bool flag, as seen by the code that uses the guard: a direct field assignment, or a call to a setter method of the
    guard type whose only effect is such an assignment (then the write is attributed to each call site).  -> [(fn, block, stmt-or-term for loc(), value, local)]"""
    from engine.asyncs import base_local
    from .common import in_module
    raw = []
    for f in F.fns.values():
        if F.is_derived(f) or not in_module(f, module):
            continue
        for i, j, s in f.stmts():
            fs = [e[2] for e in s['pl']['p'] if e[0] == 'f']
            if fs and fs[-1] == flag and s['rv']['k'] == 'use' and s['rv']['op']['k'] == 'const':
                raw.append((f, i, s, 'true' in s['rv']['op']['v']))
    out = []
    for f, i, s, val in raw:
        is_setter = (f.kind == 'AssocFn' and f.impl_of and f.impl_of.get('self_head') and 'ResponseGuard' in f.impl_of['self_head'] and not f.impl_of.get('trait')
                     and not list(f.calls()) and s['pl']['l'] == 1 and sum(1 for _ in f.stmts()) <= 3)
        if not is_setter:
            out.append((f, i, s, val, s['pl']['l']))
            continue
        for g in F.fns.values():
            for bb, t in g.calls():
                if F.callee_fn(t) is f:
                    out.append((g, bb, t, val, base_local(g, P, t['args'][0])))
    return out


def guard_always_disarmed(ctx, tag, S):
    """After the Abortable in execute completed (either way), every path to the return clears the guard flag: a finished
    execution never reports its id for clean-up (which could un-track a later request reusing the id)."""
    from engine import cfg
    from engine.asyncs import awaits
    F, P, R = ctx.F, ctx.P, ctx.run
    flag = F.field_of_type('server::ResponseGuard', lambda t: t == 'bool')
    ex = S.execute
    done = False
    from .common import deep_bodies as _db
    for f in _db(F, ex):
        ab = [(bb, t) for bb, t in f.calls() if callee_is(t, 'Abortable::new')]
        if len(ab) != 1:
            continue
        a = None
        for aw in awaits(P, f):
            if any(P.unbound(r) == ('call', f.id, ab[0][0]) for r, _ in aw['roots']):
                a = aw
        dis = [i for g_, i, s_, val_, _l in guard_flag_writes(F, P, flag) if g_.id == f.id and not val_]
        ok = a is not None and a['ready_bb'] is not None and bool(dis) and cfg.all_paths_pass(f, a['ready_bb'], cfg.exits(f), set(dis))
        # every response hand-off (send on the response queue) completes before the disarm: it is inside the Abortable, or its await
        # dominates the disarm
        from .common import future_bodies, deep_bodies
        inner_ids = set()
        for fb_ in future_bodies(F, P, f, ab[0][1]['args'][0], ab[0][0]):
            inner_ids |= {x.id for x in deep_bodies(F, fb_)}
        late = []
        for g in _db(F, ex):
            for bb2, t2 in g.calls():
                if callee_is(t2, 'mpsc::Sender::send', 'mpsc::Sender::try_send', 'mpsc::Sender::send_timeout'):
                    inside = any(g.id == i or (i and g.id.startswith(i)) for i in inner_ids)
                    if inside:
                        continue
                    from engine.asyncs import await_of_call
                    aw2 = await_of_call(P, g, bb2) if g.id == f.id else None
                    if not (aw2 and aw2['ready_bb'] is not None and dis and all(cfg.dominates(f, aw2['ready_bb'], d_) for d_ in dis)):
                        late.append(g.loc(t2))
        R.ob(tag, ('InFlightRequest::execute', 'guard stays armed until the response is handed over'), not late,
             'the response hand-off happens while the guard is still armed (inside the Abortable or before the disarm): an execution dropped while waiting for buffer space still reports its id for clean-up',
             late or [f.loc(ab[0][1])])
        R.ob(tag, ('InFlightRequest::execute', 'guard disarmed on every path once the Abortable finished'), ok,
             'whether the handler completed or was aborted, the finished execution clears its guard: it never queues its id for clean-up afterwards (a stale clean-up could un-track a request that reuses the id)',
             [f.loc(ab[0][1])])
        done = True
    if not done:
        R.ob(tag, ('InFlightRequest::execute', 'guard disarmed on every path once the Abortable finished'), False, 'execute wraps its work in an Abortable', [ex.loc(ex.d)])


def tracked_gate(ctx, tag, S):
    """<BaseChannel as Sink>::start_send: the response's id is taken out of the in-flight table (directly, or through a private helper of the channel that
    hands the table's answer back) and the transport write happens only on the hit edge of that removal, with the response it was given"""
    from .common import result_of, guarded_by_variant, norm_path
    F, P, R = ctx.F, ctx.P, ctx.run
    ss = S.start_send
    plain_kp = S.key_param(S.plain)
    tsend = [(bb, t) for bb, t in ss.calls() if callee_is(t, 'Sink::start_send') and 'Fuse<' in (t.get('self_ty') or '')]
    # the transport write may go through an accessor-style helper of the channel
    rms = []
    for bb, t in ss.calls():
        m = F.callee_fn(t)
        if m is S.plain:
            rms.append((bb, t, plain_kp))
        elif m is not None and m.impl_of and m.impl_of.get('self_head') and path_matches(m.impl_of['self_head'], 'server::BaseChannel') and any(F.callee_fn(t2) is S.plain for _, t2 in m.calls()):
            # which parameter of the helper is the id?
            kp = None
            for b2, t2 in m.calls():
                if F.callee_fn(t2) is S.plain:
                    for r, p in P.root(P.operand(m, t2['args'][plain_kp - 1], at=b2)):
                        if r[0] == 'param' and r[1] == m.id:
                            kp = r[2]
            if kp is not None:
                rms.append((bb, t, kp))
    R.ob(tag, ('<BaseChannel as Sink>::start_send', 'one removal, one transport write'), len(tsend) == 1 and len(rms) == 1,
         'sending a response untracks the request and writes once', [ss.loc(t) for _, t in tsend] + [ss.loc(t) for _, t, _ in rms] or [ss.loc(ss.d)])
    if len(tsend) == 1 and len(rms) == 1:
        (sb, st_), (rb, rt, kp) = tsend[0], rms[0]
        kr = P.root(P.operand(ss, rt['args'][kp - 1], at=rb))
        ok = bool(kr) and all(r == ('param', ss.id, 2) and P.fpath(p) == ('request_id',) for r, p in kr)
        R.ob(tag, ('<BaseChannel as Sink>::start_send', 'untracks the response\'s id'), ok, 'the removal is keyed by response.request_id', [ss.loc(rt)])
        pred = lambda x: result_of(P, x, ('call', ss.id, rb))
        R.ob(tag, ('<BaseChannel as Sink>::start_send', 'writes only on the hit edge'), bool(guarded_by_variant(F, P, ss, sb, pred, ['Some', 'Continue'])),
             'a response reaches the transport only if its request was still tracked (not cancelled, expired or already answered)', [ss.loc(st_)])
        ir = P.root(P.operand(ss, st_['args'][1], at=sb))
        R.ob(tag, ('<BaseChannel as Sink>::start_send', 'writes the response it was given'), bool(ir) and all(r == ('param', ss.id, 2) and not norm_path(p) for r, p in ir),
             'the item written is the response passed in', [ss.loc(st_)])
