"""Binders for the server side shared by C04 / C08 / C09 / C11."""
from engine.facts import CannotDecide, callee_is, path_matches
from .common import Table


class Server:
    def __init__(self, F, P):
        self.F, self.P = F, P
        self.table = Table(F, 'server')
        t = self.table
        self.insert = t.one(t.inserting(), 'inserting')
        rem = [m for m in t.removing() if not t._has(m, 'DelayQueue::poll_expired') and not (m.impl_of and (m.impl_of.get('trait') or '').endswith('Drop'))]
        self.poll_next = F.trait_method('Stream', 'server::BaseChannel', 'poll_next')
        self.start_send = F.trait_method('Sink', 'server::BaseChannel', 'start_send')
        # roles by use, not by name or by effect: the removal reached from the Cancel arm of the channel's
        # stream, and the removal reached from the channel's sink
        from .common import reachable_local_fns
        self.cancel_sites = []
        for g in reachable_local_fns(F, self.poll_next):
            for bb, c in g.calls():
                m = F.callee_fn(c)
                if m in rem:
                    kp = self.key_param(m)
                    rs = P.root(P.operand(g, c['args'][kp - 1], at=bb))
                    if rs and all(self.is_transport_item(r) and ('v', 'Cancel') in p for r, p in rs):
                        self.cancel_sites.append((g, bb, c, m))
        ms = {m.id: m for _, _, _, m in self.cancel_sites}
        self.aborting = list(ms.values())[0] if len(ms) == 1 else None
        resp = {}
        for bb, c in self.start_send.calls():
            m = F.callee_fn(c)
            if m in rem:
                resp[m.id] = m
        if len(resp) != 1:
            raise CannotDecide('removal used by <BaseChannel as Sink>::start_send: %d' % len(resp))
        self.plain = list(resp.values())[0]
        self.expiry = t.one(t.expiring(), 'expiring')
        regs = [m for m in F.fns.values() if m.impl_of and m.impl_of.get('self_head') and path_matches(m.impl_of['self_head'], 'server::BaseChannel')
                and list(m.aggregates('server::TrackedRequest'))]
        if len(regs) != 1:
            raise CannotDecide('request registration fn: %d' % len(regs))
        self.register = regs[0]
        self.execute = F.inherent('server::InFlightRequest', 'execute')
        self.requests_poll = F.trait_method('Stream', 'server::Requests', 'poll_next')

    def key_param(self, m):
        """parameter of table method m that keys its HashMap operation"""
        P = self.P
        for g in self.table.bodies(m):
            for bb, t in g.calls():
                if callee_is(t, 'HashMap::remove', 'HashMap::remove_entry', 'HashMap::entry'):
                    for r, p in P.root(P.operand(g, t['args'][1], at=bb)):
                        if r[0] == 'param' and r[1] == m.id:
                            return r[2]
        raise CannotDecide('key parameter of %s' % m.id)

    def is_transport_item(self, r):
        P = self.P
        return P.is_call(r, 'Stream::poll_next') and 'Fuse<' in (P.call_term(P.unbound(r)).get('self_ty') or '')
