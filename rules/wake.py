"""Shared wake-registration exploration of the client dispatch poll (used by C02, C01, C05)."""
from engine.facts import CannotDecide
from engine.shape import STAR
from .common import reachable_local_fns
from .shape_common import find_cell_accessors, run_jobs, cmp_sites_for, fact_true


def kill_capacity(ev, shape):
    # anything that changes the number of in-flight entries invalidates the capacity fact:
    # a successful map removal, a bulk removal, and the registration that follows a dequeued request
    if ev == ('M', 'remove') and 'Some' in repr(shape):
        return ('cap+', 'cap-')
    if ev == ('M', 'drain'):
        return ('cap+', 'cap-')
    if ev[0] == 'Q' and 'Some' in repr(shape):
        return ('cap+', 'cap-')
    return ()


def dispatch_setup(F, P):
    poll = F.trait_method('Future', 'client::RequestDispatch', 'poll')
    reach = reachable_local_fns(F, poll)
    acc, fields = find_cell_accessors(F, P, 'client::RequestDispatch', lambda t: t.startswith('std::option::Option<') and 'ChannelError' in t)
    if len(fields) != 1:
        raise CannotDecide('terminal-error cell of the dispatch: %d candidates' % len(fields))
    cell = sorted(fields)[0]
    cells = [((cell, 'None'),), ((cell, ('Some', STAR)),)]
    is_len = lambda x: bool(P.root(x)) and all(P.is_call(r, 'HashMap::len') for r, _ in P.root(x))
    def is_max(x):
        rs = P.root(x, through_params=True)
        return bool(rs) and all(r[0] == 'param' and P.fpath(p)[-1:] == ('max_in_flight_requests',) for r, p in rs)
    cmps = cmp_sites_for(F, P, reach, is_len, is_max, 'cap')
    if not cmps:
        # the table size is compared with something, but not with the configured maximum: no capacity fact is granted, so every idle return
        # that leaves the request queue unpolled is reported by the wake rules (and the bound itself by C11.capacity)
        caplike = cmp_sites_for(F, P, reach, is_len, lambda x: True, 'capx')
        if not caplike:
            raise CannotDecide('capacity comparison site not found')
        cmps = {}
    return poll, reach, acc, cells, cmps


def source_jobs(F, P, sources, extra=()):
    poll, reach, acc, cells, cmps = dispatch_setup(F, P)
    jobs = []
    for src in sources:
        jobs.append({'key': src, 'entry': poll.id, 'aut': ('src', src), 'acc': acc, 'cells': cells, 'depth': 4, 'cmp_sites': cmps, 'kill_facts': kill_capacity})
    for j in extra:
        j = dict(j)
        j.setdefault('entry', poll.id)
        j.setdefault('acc', acc)
        j.setdefault('cells', cells)
        jobs.append(j)
    return poll, reach, jobs


def pending_states(result):
    """distinct (last outcome, w_wait, draining, at_capacity) over the Pending exits of one source job"""
    seen = []
    for (ret, e, lab) in result['exits']:
        if ret != 'Pending':
            continue
        (s_, w_wait, drain), cellv, facts = e
        term = any(isinstance(v, tuple) and v and v[0] == 'Some' for _, v in cellv)
        key = (s_, w_wait, drain or term, fact_true(facts, 'cap'))
        if key not in seen:
            seen.append(key)
    return seen


def source_ok(src, key):
    s_, w_wait, draining, cap = key
    if src == 'R':
        return draining or s_ == 'Pending'
    if src == 'T':
        return draining or s_ in ('Pending', 'Closed')
    if src == 'K':
        return draining or s_ in ('Pending', 'Closed') or w_wait
    # Q
    if draining:
        return s_ in ('Pending', 'Closed')
    return s_ in ('Pending', 'Closed') or w_wait or cap
