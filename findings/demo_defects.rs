use futures::{prelude::*, task::*};
use std::{pin::Pin, time::{Duration, Instant}, sync::{Arc, atomic::{AtomicUsize, Ordering}}};
use tarpc::{ClientMessage, Request, Response, ServerError, context, client, server::{self, BaseChannel, Channel, incoming::Incoming}, transport};

// D1: io::ErrorKind through the shipped bincode codec options
#[test]
fn d1_errorkind_bincode_default_options() {
    use bincode::Options;
    let o = bincode::DefaultOptions::new();
    let mut bad = vec![];
    for kind in [std::io::ErrorKind::NotFound, std::io::ErrorKind::PermissionDenied, std::io::ErrorKind::ConnectionRefused, std::io::ErrorKind::Other, std::io::ErrorKind::UnexpectedEof] {
        let e = ServerError::new(kind, "x".into());
        let bytes = o.serialize(&e).unwrap();
        let back: ServerError = o.deserialize(&bytes).unwrap();
        if back.kind != kind { bad.push((kind, back.kind)); }
    }
    println!("D1 mismatches: {bad:?}");
    assert!(bad.is_empty());
}

// D2a: huge deadline on decode
#[test]
fn d2a_decode_huge_deadline_json() {
    let s = r#"{"deadline":{"secs":18446744073709551615,"nanos":0},"trace_context":{"trace_id":[0,0,0,0,0,0,0,0,0,0,0,0,0,0,0,0],"span_id":0,"sampling_decision":"Unsampled"}}"#;
    let r = std::panic::catch_unwind(|| serde_json::from_str::<context::Context>(s).map(|_| ()));
    println!("D2a: {:?}", r.as_ref().map(|x| x.as_ref().map_err(|e| e.to_string())));
    assert!(r.is_ok(), "decode panicked");
}

// D2b: 3-year deadline on server channel
#[tokio::test]
async fn d2b_server_three_year_deadline() {
    let (mut tx, rx) = transport::channel::unbounded();
    let mut ctx = context::current();
    ctx.deadline = Instant::now() + Duration::from_secs(3 * 365 * 86400);
    tx.send(ClientMessage::Request(Request { context: ctx, id: 1, message: () })).await.unwrap();
    let mut ch = Box::pin(BaseChannel::<(), (), _>::with_defaults(rx));
    let r = std::panic::catch_unwind(std::panic::AssertUnwindSafe(|| {
        let _ = ch.as_mut().poll_next(&mut Context::from_waker(noop_waker_ref()));
    }));
    assert!(r.is_ok(), "server channel poll panicked on 3y deadline");
}

// D2c: 3-year deadline on client dispatch
#[tokio::test]
async fn d2c_client_three_year_deadline() {
    let (tx, _rx) = transport::channel::unbounded();
    let client::NewClient { client, dispatch } = client::new::<String, String, _>(client::Config::default(), tx);
    let h = tokio::spawn(dispatch);
    let mut ctx = context::current();
    ctx.deadline = Instant::now() + Duration::from_secs(3 * 365 * 86400);
    let r = tokio::time::timeout(Duration::from_millis(300), client.call(ctx, "hi".to_string())).await;
    println!("D2c call result: {r:?}");
    tokio::time::sleep(Duration::from_millis(50)).await;
    assert!(!h.is_finished() || !h.await.is_err(), "dispatch panicked");
}

// D3: stale close notification
#[tokio::test]
async fn d3_channels_per_key_stale_close() {
    let (chan_tx, chan_rx) = futures::channel::mpsc::unbounded();
    let mk = || { let (_t, rx) = transport::channel::unbounded(); std::mem::forget(_t); BaseChannel::<(), (), _>::with_defaults(rx) };
    let mut incoming = Box::pin(chan_rx.max_channels_per_key(1, |_c| 7u32));
    let cx = &mut Context::from_waker(noop_waker_ref());
    chan_tx.unbounded_send(mk()).unwrap();
    let a = match incoming.as_mut().poll_next(cx) { Poll::Ready(Some(c)) => c, _ => panic!() };
    drop(a);                       // close A -> notification queued
    chan_tx.unbounded_send(mk()).unwrap();   // same-key arrival pending at the same poll
    let b = match incoming.as_mut().poll_next(cx) { Poll::Ready(Some(c)) => c, _ => panic!("B should be admitted") };
    chan_tx.unbounded_send(mk()).unwrap();
    let c = incoming.as_mut().poll_next(cx);
    let admitted = matches!(c, Poll::Ready(Some(_)));
    println!("D3: C admitted while B alive with n=1: {admitted}");
    drop(b);
    assert!(!admitted);
}

// D4: independent readiness/flush transport -> busy loop in one poll
struct Indep { ready_polls: Arc<AtomicUsize> }
impl Stream for Indep { type Item = Result<Response<String>, std::io::Error>; fn poll_next(self: Pin<&mut Self>, _: &mut Context<'_>) -> Poll<Option<Self::Item>> { Poll::Pending } }
impl Sink<ClientMessage<String>> for Indep {
    type Error = std::io::Error;
    fn poll_ready(self: Pin<&mut Self>, _: &mut Context<'_>) -> Poll<Result<(), Self::Error>> {
        let n = self.ready_polls.fetch_add(1, Ordering::SeqCst);
        if n > 10_000 { panic!("poll_ready retried >10000 times within one poll") }
        Poll::Pending
    }
    fn start_send(self: Pin<&mut Self>, _: ClientMessage<String>) -> Result<(), Self::Error> { Ok(()) }
    fn poll_flush(self: Pin<&mut Self>, _: &mut Context<'_>) -> Poll<Result<(), Self::Error>> { Poll::Ready(Ok(())) }
    fn poll_close(self: Pin<&mut Self>, _: &mut Context<'_>) -> Poll<Result<(), Self::Error>> { Poll::Ready(Ok(())) }
}
#[test]
fn d4_busy_loop() {
    let n = Arc::new(AtomicUsize::new(0));
    let client::NewClient { client: _client, dispatch } = client::new::<String, String, _>(client::Config::default(), Indep { ready_polls: n.clone() });
    let mut d = Box::pin(dispatch);
    let r = std::panic::catch_unwind(std::panic::AssertUnwindSafe(|| { let _ = d.as_mut().poll(&mut Context::from_waker(noop_waker_ref())); }));
    println!("D4: poll_ready calls in one poll = {}", n.load(Ordering::SeqCst));
    assert!(r.is_ok());
    assert!(n.load(Ordering::SeqCst) <= 4, "unbounded retry of poll_ready within one poll");
}

// D6: cancel then request at L=1 -> spurious throttle
#[tokio::test]
async fn d6_spurious_throttle() {
    let (mut tx, rx) = transport::channel::unbounded();
    let mut ch = Box::pin(BaseChannel::<(), (), _>::with_defaults(rx).max_concurrent_requests(1));
    let cx = &mut Context::from_waker(noop_waker_ref());
    tx.send(ClientMessage::Request(Request { context: context::current(), id: 1, message: () })).await.unwrap();
    let a = match ch.as_mut().poll_next(cx) { Poll::Ready(Some(Ok(r))) => r, _ => panic!() };
    tx.send(ClientMessage::Cancel { trace_context: Default::default(), request_id: 1 }).await.unwrap();
    tx.send(ClientMessage::Request(Request { context: context::current(), id: 2, message: () })).await.unwrap();
    let r = ch.as_mut().poll_next(cx);
    let yielded = matches!(r, Poll::Ready(Some(Ok(_))));
    let resp = tx.next().now_or_never();
    println!("D6: request 2 yielded={yielded} response={resp:?}");
    drop(a);
    assert!(yielded, "request 2 was throttled though 0 were in flight when it was read");
}

// D5: at limit, sink not ready, deadline passes -> handler not aborted
struct NotReady<T>(T);
impl<T: Stream + Unpin> Stream for NotReady<T> { type Item = T::Item; fn poll_next(mut self: Pin<&mut Self>, cx: &mut Context<'_>) -> Poll<Option<Self::Item>> { Pin::new(&mut self.0).poll_next(cx) } }
impl<T: Unpin> Sink<Response<()>> for NotReady<T> {
    type Error = transport::channel::ChannelError;
    fn poll_ready(self: Pin<&mut Self>, _: &mut Context<'_>) -> Poll<Result<(), Self::Error>> { Poll::Pending }
    fn start_send(self: Pin<&mut Self>, _: Response<()>) -> Result<(), Self::Error> { Ok(()) }
    fn poll_flush(self: Pin<&mut Self>, _: &mut Context<'_>) -> Poll<Result<(), Self::Error>> { Poll::Pending }
    fn poll_close(self: Pin<&mut Self>, _: &mut Context<'_>) -> Poll<Result<(), Self::Error>> { Poll::Pending }
}
#[tokio::test(start_paused = true)]
async fn d5_expiry_while_sink_not_ready_at_limit() {
    let (mut tx, rx) = transport::channel::unbounded::<Response<()>, ClientMessage<()>>(); let (mut tx, rx) = (tx, rx);
    let mut ch = Box::pin(BaseChannel::<(), (), _>::with_defaults(NotReady(rx)).max_concurrent_requests(1));
    let cx = &mut Context::from_waker(noop_waker_ref());
    let mut ctx = context::current();
    ctx.deadline = Instant::now() + Duration::from_secs(1);
    tx.send(ClientMessage::Request(Request { context: ctx, id: 1, message: () })).await.unwrap();
    let a = match ch.as_mut().poll_next(cx) { Poll::Ready(Some(Ok(r))) => r, _ => panic!() };
    let mut handler = Box::pin(futures::future::Abortable::new(futures::future::pending::<()>(), a.abort_registration));
    tokio::time::advance(Duration::from_secs(5)).await;
    let _ = ch.as_mut().poll_next(cx);
    let aborted = matches!(handler.as_mut().poll(cx), Poll::Ready(Err(_)));
    println!("D5: in_flight={} aborted={aborted}", ch.in_flight_requests());
    assert!(aborted, "handler still running 4s past its deadline");
}
