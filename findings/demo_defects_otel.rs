use std::time::{Duration, Instant};
use tarpc::{client, context, server::{BaseChannel, Channel}, transport, ClientMessage, Request, Response};
use futures::prelude::*;
use opentelemetry::trace::TracerProvider as _;
use tracing_subscriber::prelude::*;

fn install_otel() -> tracing::subscriber::DefaultGuard {
    let provider = opentelemetry_sdk::trace::TracerProvider::builder().build();
    let tracer = provider.tracer("t");
    let sub = tracing_subscriber::registry().with(tracing_opentelemetry::layer().with_tracer(tracer));
    tracing::subscriber::set_default(sub)
}

// D2d: 9000-year local deadline with an OpenTelemetry subscriber: client call
#[test]
fn d2d_client_call_far_deadline_otel() {
    let _g = install_otel();
    let rt = tokio::runtime::Builder::new_current_thread().enable_all().build().unwrap();
    let r = std::panic::catch_unwind(std::panic::AssertUnwindSafe(|| rt.block_on(async {
        let (tx, _rx) = transport::channel::unbounded();
        let client::NewClient { client, dispatch } = client::new::<String, String, _>(client::Config::default(), tx);
        tokio::spawn(dispatch);
        let mut ctx = context::current();
        ctx.deadline = Instant::now() + Duration::from_secs(9000 * 365 * 86400);
        let _ = tokio::time::timeout(Duration::from_millis(100), client.call(ctx, "hi".to_string())).await;
    })));
    println!("D2d client call panicked: {}", r.is_err());
    assert!(r.is_ok());
}

// D2e: same deadline arriving at a server channel over the in-memory transport
#[test]
fn d2e_server_far_deadline_otel() {
    let _g = install_otel();
    let rt = tokio::runtime::Builder::new_current_thread().enable_all().build().unwrap();
    let r = std::panic::catch_unwind(std::panic::AssertUnwindSafe(|| rt.block_on(async {
        let (mut tx, rx) = transport::channel::unbounded::<Response<()>, ClientMessage<()>>();
        let mut ctx = context::current();
        ctx.deadline = Instant::now() + Duration::from_secs(9000 * 365 * 86400);
        tx.send(ClientMessage::Request(Request { context: ctx, id: 1, message: () })).await.unwrap();
        let mut ch = Box::pin(BaseChannel::<(), (), _>::with_defaults(rx));
        let _ = ch.next().now_or_never();
    })));
    println!("D2e server poll panicked: {}", r.is_err());
    assert!(r.is_ok());
}
