#!/usr/bin/env python3
"""Prototype 2 of E-SHAPE: summary-based (functional) interprocedural exploration with small automata."""
import json, sys, collections, time

import os
FACTS = json.load(open(os.environ.get('FACTS','/tmp/proto/facts/tarpc.json')))
FN = {}
for f in FACTS['fns']:
    FN.setdefault(f['path'], f)
def norm(p): return p.replace('::<', '<')
ENUMS = {norm(k): v for k, v in FACTS['enums'].items()}
STAR = '*'

def split_top(inner):
    args, depth, cur = [], 0, ''
    for ch in inner:
        if ch in '<([': depth += 1
        elif ch in '>)]': depth -= 1
        if ch == ',' and depth == 0:
            args.append(cur.strip()); cur = ''
        else: cur += ch
    if cur.strip(): args.append(cur.strip())
    return args

UCACHE = {}
def universe(t, depth=4):
    key = (t, depth)
    if key in UCACHE: return UCACHE[key]
    r = _universe(t.strip(), depth)
    UCACHE[key] = r
    return r
def _universe(t, depth):
    if depth == 0: return [STAR]
    if t == 'bool': return [True, False]
    if t.startswith('&'): return [STAR]
    if t.startswith('(') and t.endswith(')') and t != '()':
        us = [universe(p, depth - 1) for p in split_top(t[1:-1])]
        if all(u == [STAR] for u in us): return [STAR]
        out = [()]
        for u in us: out = [o + (s,) for o in out for s in u]
        return [('tuple',) + o for o in out]
    if norm(t) in ENUMS and all(n == 0 for _, n in ENUMS[norm(t)]):
        return [('E', norm(t), i) for i in range(len(ENUMS[norm(t)]))]
    i = t.find('<')
    if i > 0 and t.endswith('>'):
        head, args = t[:i], split_top(t[i + 1:-1])
        h = head.split('::')[-1]
        if head.startswith('std::') or head.startswith('core::'):
            if h == 'Poll' and len(args) == 1: return ['Pending'] + [('Ready', s) for s in universe(args[0], depth - 1)]
            if h == 'Option' and len(args) == 1: return ['None'] + [('Some', s) for s in universe(args[0], depth - 1)]
            if h == 'Result' and len(args) == 2: return [('Ok', s) for s in universe(args[0], depth - 1)] + [('Err', STAR)]
            if h == 'ControlFlow':
                b = universe(args[0], depth - 1); c = universe(args[1], depth - 1) if len(args) > 1 else [STAR]
                return [('Continue', s) for s in c] + [('Break', s) for s in b]
    return [STAR]

DISCR = {'Pending': 1, 'Ready': 0, 'None': 0, 'Some': 1, 'Ok': 0, 'Err': 1, 'Continue': 0, 'Break': 1}
def discr_of(s):
    if s is True: return 1
    if s is False: return 0
    if isinstance(s, str): return DISCR.get(s)
    if isinstance(s, tuple):
        if s[0] == 'E': return s[2]
        return DISCR.get(s[0])
    return None

def is_tracing(x):
    return any('tracing::' in e for e in x.get('expn', ()))

# ------------------------------------------------------------------ liveness
LIVE = {}
def op_locals(op): return [op['pl']['l']] if op.get('k') in ('copy', 'move') else []
def fn_liveness(fn):
    if fn in LIVE: return LIVE[fn]
    f = FN[fn]; n = len(f['blocks'])
    use, deff, succ, addr = [set() for _ in range(n)], [set() for _ in range(n)], [[] for _ in range(n)], set()
    for i, b in enumerate(f['blocks']):
        u, d = use[i], deff[i]
        def U(l):
            if l not in d: u.add(l)
        for st in b['stmts']:
            rv = st['rv']
            for key in ('op', 'a', 'b'):
                if isinstance(rv.get(key), dict):
                    for l in op_locals(rv[key]): U(l)
            for o in rv.get('ops', []):
                for l in op_locals(o): U(l)
            if rv['k'] in ('ref', 'discr'):
                U(rv['pl']['l'])
                if rv['k'] == 'ref': addr.add(rv['pl']['l'])
            if st['pl']['p']: U(st['pl']['l'])
            else: d.add(st['pl']['l'])
        t = b['term']; k = t['k']
        if k == 'call':
            for a in t['args']:
                for l in op_locals(a): U(l)
            for l in op_locals(t['func']): U(l)
            if t['dest']['p']: U(t['dest']['l'])
            else: d.add(t['dest']['l'])
            if t['target'] is not None: succ[i].append(t['target'])
        elif k == 'switch':
            for l in op_locals(t['discr']): U(l)
            succ[i] += [x for (_, x) in t['targets']] + [t['otherwise']]
        elif k in ('goto', 'drop', 'assert', 'yield'):
            if k == 'drop': U(t['pl']['l'])
            succ[i].append(t['t'])
        elif k == 'return': U(0)
    live_in = [set() for _ in range(n)]
    changed = True
    while changed:
        changed = False
        for i in range(n - 1, -1, -1):
            out = set()
            for x in succ[i]: out |= live_in[x]
            new = use[i] | (out - deff[i])
            if new != live_in[i]: live_in[i] = new; changed = True
    LIVE[fn] = (live_in, addr)
    return LIVE[fn]

# ------------------------------------------------------------------ places
def get_place(loc, pl):
    v = loc.get(pl['l'], STAR)
    for e in pl['p']:
        if isinstance(v, tuple) and v and v[0] == 'ref' and e[0] == 'd':
            v = get_place(loc, json.loads(v[1])); continue
        if v == STAR: return STAR
        if e[0] in ('d', 'dc'): continue
        if e[0] == 'f':
            if isinstance(v, tuple) and v[0] == 'tuple': v = v[1 + e[1]]
            elif isinstance(v, tuple) and v[0] in DISCR: v = v[1] if e[1] == 0 else STAR
            else: return STAR
        else: return STAR
    return v
def deref(loc, v):
    n = 0
    while isinstance(v, tuple) and v and v[0] == 'ref' and n < 5:
        v = get_place(loc, json.loads(v[1])); n += 1
    return v
def set_place(loc, pl, val):
    if not pl['p']:
        if val == STAR: loc.pop(pl['l'], None)
        else: loc[pl['l']] = val
        return
    base = loc.get(pl['l'], STAR)
    if isinstance(base, tuple) and base and base[0] == 'ref' and pl['p'][0][0] == 'd':
        r = json.loads(base[1]); set_place(loc, {'l': r['l'], 'p': r['p'] + pl['p'][1:]}, val); return
    if isinstance(base, tuple) and base and base[0] == 'tuple' and len(pl['p']) == 1 and pl['p'][0][0] == 'f':
        lst = list(base); lst[1 + pl['p'][0][1]] = val; loc[pl['l']] = tuple(lst); return
    if base != STAR and not (isinstance(base, tuple) and base[0] == 'ref'): loc.pop(pl['l'], None)
def ev_op(loc, op):
    if op['k'] in ('copy', 'move'): return get_place(loc, op['pl'])
    if op['k'] == 'const' and op['ty'] == 'bool': return 'true' in op['v']
    return STAR

# ------------------------------------------------------------------ models
def model_call(c, args, dest_ty):
    a0 = args[0] if args else STAR
    if c.endswith('::map_err') or c.endswith('::map_ok') or (c.startswith('std::task::Poll') and c.endswith('::map')):
        return None if a0 == STAR else [a0]
    if c == 'std::ops::Try::branch':
        s = a0
        if s == STAR: return None
        if s == 'Pending': return [('Continue', 'Pending')]
        if s == 'None': return [('Break', 'None')]
        if isinstance(s, tuple):
            if s[0] == 'Ready':
                p = s[1]
                if p == 'None': return [('Continue', ('Ready', 'None'))]
                if isinstance(p, tuple) and p[0] == 'Some':
                    q = p[1]
                    if isinstance(q, tuple) and q[0] == 'Ok': return [('Continue', ('Ready', ('Some', q[1])))]
                    if isinstance(q, tuple) and q[0] == 'Err': return [('Break', ('Err', STAR))]
                if isinstance(p, tuple) and p[0] == 'Ok': return [('Continue', ('Ready', p[1]))]
                if isinstance(p, tuple) and p[0] == 'Err': return [('Break', ('Err', STAR))]
            if s[0] == 'Ok': return [('Continue', s[1])]
            if s[0] == 'Err': return [('Break', ('Err', STAR))]
            if s[0] == 'Some': return [('Continue', s[1])]
        return None
    if c == 'std::ops::FromResidual::from_residual':
        if a0 == 'None': return ['None']
        u = universe(dest_ty)
        cands = [x for x in u if 'Err' in repr(x)]
        return cands[-1:] or None
    if c.endswith('Poll::<T>::is_pending'): return None if a0 == STAR else [a0 == 'Pending']
    if c.endswith('Poll::<T>::is_ready'): return None if a0 == STAR else [a0 != 'Pending']
    if c.endswith('::is_some'): return None if a0 == STAR else [a0 != 'None']
    if c.endswith('::is_none'): return None if a0 == STAR else [a0 == 'None']
    return None

# ------------------------------------------------------------------ events
def is_progress(l):
    return (l.startswith('R.') or l.startswith('Q.') or l.startswith('K.') or l.startswith('T.')) and 'Some' in l or l.startswith('W.start_send')

def classify(t):
    c, st = t['callee'] or '', t['self_ty'] or ''
    if c in ('futures::Sink::poll_ready', 'futures::Sink::start_send', 'futures::Sink::poll_flush', 'futures::Sink::poll_close') and 'Fuse<' in st:
        return ('W', c.split('::')[-1])
    if c == 'futures::Stream::poll_next' and 'Fuse<' in st: return ('R', 'poll_next')
    if c.startswith('tokio::sync::mpsc::Receiver') and c.endswith('poll_recv'): return ('Q', 'poll_recv')
    if c.startswith('tokio::sync::mpsc::Receiver') and c.endswith('::close'): return ('CLOSEQ', 'close')
    if c.startswith('tokio::sync::mpsc::UnboundedReceiver') and c.endswith('poll_recv'): return ('K', 'poll_recv')
    if 'DelayQueue' in c and c.endswith('poll_expired'): return ('T', 'poll_expired')
    if 'DelayQueue' in c and c.endswith('::is_empty'): return ('T', 'is_empty')
    return None

class SinkAut:
    name = 'sink'
    def init(self): return ('none', False, False)   # last, unflushed, ready_pending_seen
    def step(self, aut, ev, shape, site, viol):
        last, unflushed, rps = aut
        kind, op = ev
        if kind != 'W': return aut
        if op == 'poll_ready':
            if rps: viol[('REPOLL_READY_AFTER_PENDING', site)] += 1
            if shape == 'Pending': return ('ready_pending', unflushed, True)
            if shape == ('Ready', ('Ok', STAR)): return ('ready_ok', unflushed, rps)
            return ('failed', unflushed, rps)
        if op == 'start_send':
            if last != 'ready_ok': viol[('START_SEND_WITHOUT_READY', site, last)] += 1
            if shape != ('Ok', STAR): return ('failed', unflushed, rps)
            return ('sent', True, rps)
        if op == 'poll_flush':
            if last in ('failed', 'closed'): viol[('OP_AFTER_FAIL_OR_CLOSE', site, last)] += 1
            if shape == ('Ready', ('Ok', STAR)): return (last if last == 'ready_ok' else 'flush_ok', False, rps)
            if shape == 'Pending': return (last if last == 'ready_ok' else 'flush_pending', unflushed, rps)
            return ('failed', unflushed, rps)
        if op == 'poll_close':
            if shape == ('Ready', ('Ok', STAR)): return ('closed', unflushed, rps)
            if shape == 'Pending': return ('close_pending', unflushed, rps)
            return ('failed', unflushed, rps)
        return aut

class VecAut:
    name = 'vec'
    ORDER = ['R', 'Q', 'K', 'T', 'W']
    def init(self): return ('unpolled',) * 5 + (False,)
    def step(self, aut, ev, shape, site, viol):
        a = list(aut)
        if ev[0] == 'CLOSEQ': a[5] = True; return tuple(a)
        i = self.ORDER.index(ev[0])
        if ev[0] == 'W':
            if ev[1] == 'start_send': return aut
            a[i] = 'Pending' if shape == 'Pending' else ('Ok' if shape == ('Ready', ('Ok', STAR)) else 'Err')
        elif ev[1] == 'is_empty':
            if shape is True: a[i] = 'Closed'
        else:
            a[i] = 'Pending' if shape == 'Pending' else ('Closed' if shape == ('Ready', 'None') else 'Progress')
        return tuple(a)

class CtxAut:
    """one wake source joined with the context its exemptions need: (S_last, W_last, drain)"""
    def __init__(self, src): self.src = src; self.name = 'ctx_' + src
    def init(self): return ('unpolled', 'unpolled', False)
    def step(self, aut, ev, shape, site, viol):
        s_, w, d = aut
        if ev[0] == 'CLOSEQ': return (s_, w, True)
        if ev[0] == 'W':
            if ev[1] != 'start_send':
                w = 'Pending' if shape == 'Pending' else ('Ok' if shape == ('Ready', ('Ok', STAR)) else 'Err')
        if ev[0] == self.src:
            if ev[1] == 'is_empty':
                if shape is True: s_ = 'Closed'
            else:
                s_ = 'Pending' if shape == 'Pending' else ('Closed' if shape == ('Ready', 'None') else 'Progress')
        return (s_, w, d)

class CloseAut:
    name = 'close'
    def init(self): return ('unpolled', 'unpolled')
    def step(self, aut, ev, shape, site, viol):
        q, k = aut
        def oc(shape): return 'Pending' if shape == 'Pending' else ('Closed' if shape == ('Ready', 'None') else 'Progress')
        if ev[0] == 'Q' and ev[1] == 'poll_recv': q = oc(shape)
        if ev[0] == 'K': k = oc(shape)
        if ev == ('W', 'poll_close'):
            if (q, k) != ('Closed', 'Closed'): viol[('CLOSE_BEFORE_BOTH_QUEUES_CLOSED', site, q, k)] += 1
            else: viol[('ok: close with both queues closed', site)] += 1
        return (q, k)

class SrcAut:
    def __init__(self, src): self.src = src; self.name = 'src_' + src
    def init(self): return 'unpolled'
    def step(self, aut, ev, shape, site, viol):
        if ev[0] != self.src: return aut
        if self.src == 'W':
            if ev[1] == 'start_send': return aut
            return 'Pending' if shape == 'Pending' else ('Ok' if shape == ('Ready', ('Ok', STAR)) else 'Err')
        if ev[1] == 'is_empty': return 'Closed' if shape is True else aut
        if shape == 'Pending': return 'Pending'
        if shape == ('Ready', 'None'): return 'Closed'
        return 'Progress'

REGION = {}
import re
IMPLS = {}
for _p in FN:
    m = re.match(r'^<(.+) as ([^<>]+)(<.*>)?>::(\w+)$', _p)
    if m:
        selfty, trait, _, meth = m.groups()
        head = selfty.split('<')[0]
        IMPLS[(trait + '::' + meth, head)] = _p
CHAIN = [c for c in os.environ.get('CHAIN', '').split(',') if c]
# ------------------------------------------------------------------ interpreter
class Interp:
    def __init__(self, aut):
        self.A = aut
        self.memo = {}
        self.inprog = set()
        self.viol = collections.Counter()
        self.stats = collections.Counter()
        self.unmodelled = collections.Counter()
        self.loops = collections.Counter()
        self.spin = collections.Counter()

    def summarize(self, fn, args, aut, level=0):
        key = (fn, args, aut, level)
        if key in self.memo: return self.memo[key]
        if key in self.inprog: raise Exception('recursion at ' + fn)
        self.inprog.add(key)
        res = self._run(fn, args, aut, level)
        self.inprog.discard(key)
        self.memo[key] = res
        return res

    def _run(self, fn, args, aut0, level=0):
        f = FN[fn]
        live_in, addr = fn_liveness(fn)
        loc0 = {i + 1: a for i, a in enumerate(args) if a != STAR}
        def freeze(bb, loc, aut):
            keep = live_in[bb] | addr
            return (bb, tuple(sorted(((l, v) for l, v in loc.items() if l in keep), key=lambda x: x[0])), aut)
        start = freeze(0, loc0, aut0)
        seen = {start}
        work = [start]
        graph = collections.defaultdict(set)
        exits = set()
        exit_nodes = collections.defaultdict(set)
        while work:
            node = work.pop()
            self.stats['states'] += 1
            bb, floc, aut = node
            for (labels, bb2, loc2, aut2, ret) in self._block(fn, f, bb, dict(floc), aut, level):
                if bb2 is None:
                    exits.add((ret, aut2)); exit_nodes[(ret, aut2)].add(node)
                    graph[node].add((labels, ('EXIT', ret, aut2)))
                    continue
                n2 = freeze(bb2, loc2, aut2)
                graph[node].add((labels, n2))
                if n2 not in seen:
                    seen.add(n2); work.append(n2)
        # may-labels (union over paths) and must-labels (intersection over paths) per node
        lab = collections.defaultdict(frozenset)
        must = {start: frozenset()}
        changed = True
        order = list(graph)
        while changed:
            changed = False
            for n in order:
                for ((ls, ms), m) in graph[n]:
                    new = lab[m] | lab[n] | ls
                    if new != lab[m]: lab[m] = new; changed = True
                    if n in must:
                        cand = must[n] | ms
                        newm = cand if m not in must else (must[m] & cand)
                        if must.get(m) != newm: must[m] = newm; changed = True
        self._scc_check(fn, graph)
        return frozenset((ret, a, (lab[('EXIT', ret, a)], must.get(('EXIT', ret, a), frozenset()))) for (ret, a) in exits)

    def _scc_check(self, fn, graph):
        index, low, onst, stack, comp = {}, {}, set(), [], {}
        counter = [0]
        for root in list(graph):
            if root in index: continue
            call = [(root, iter(graph.get(root, ())))]
            index[root] = low[root] = counter[0]; counter[0] += 1; stack.append(root); onst.add(root)
            while call:
                node, it = call[-1]
                adv = False
                for (_, w) in it:
                    if w not in index:
                        index[w] = low[w] = counter[0]; counter[0] += 1; stack.append(w); onst.add(w)
                        call.append((w, iter(graph.get(w, ())))); adv = True; break
                    elif w in onst: low[node] = min(low[node], index[w])
                if adv: continue
                call.pop()
                if call: low[call[-1][0]] = min(low[call[-1][0]], low[node])
                if low[node] == index[node]:
                    cid = len(comp) + 1; members = []
                    while True:
                        w = stack.pop(); onst.discard(w); members.append(w)
                        if w == node: break
                    for w in members: comp[w] = (cid, len(members))
        for n, es in graph.items():
            for (ls, m) in es:
                if comp.get(n) and comp.get(m) and comp[n][0] == comp[m][0] and (comp[n][1] > 1 or n == m):
                    for l in ls[0]:
                        if l == 'W.poll_ready=Pending':
                            self.loops[(fn, l)] += 1
        # spin rule: cycles in the subgraph without must-progress edges and outside failed states
        def progress(ms): return any(is_progress(x) for x in ms)
        sub = collections.defaultdict(set)
        for n, es in graph.items():
            if n[0] == 'EXIT' or (isinstance(n[2], tuple) and n[2] and n[2][0] == 'failed'): continue
            for ((ls, ms), m) in es:
                if m[0] == 'EXIT' or progress(ms): continue
                sub[n].add((ls, m))
        # find nodes on cycles of sub (simple DFS-based: node reaches itself)
        def reach(src):
            seen, work = set(), [src]
            while work:
                x = work.pop()
                for (_, y) in sub.get(x, ()):
                    if y not in seen: seen.add(y); work.append(y)
            return seen
        for n, es in sub.items():
            for (ls, m) in es:
                if 'W.poll_ready=Pending' in ls and n in (reach(m) | ({m} if m == n else set())):
                    self.spin[fn] += 1

    def _region(self, fn, f, bb):
        key = (fn, bb)
        if key in REGION: return REGION[key]
        def is_tr(b):
            blk = f['blocks'][b]
            return is_tracing(blk['term']) and all(is_tracing(s) for s in blk['stmts']) and blk['term']['k'] not in ('return', 'yield')
        if not is_tr(bb):
            REGION[key] = None; return None
        seen, work, exits, assigned = {bb}, [bb], set(), set()
        while work:
            b = work.pop(); blk = f['blocks'][b]
            for s in blk['stmts']: assigned.add(s['pl']['l'])
            t = blk['term']; k = t['k']
            succ = []
            if k == 'call':
                assigned.add(t['dest']['l'])
                if t['target'] is not None: succ.append(t['target'])
            elif k == 'switch': succ += [x for (_, x) in t['targets']] + [t['otherwise']]
            elif k in ('goto', 'drop', 'assert'): succ.append(t['t'])
            for x in succ:
                if is_tr(x):
                    if x not in seen: seen.add(x); work.append(x)
                else: exits.add(x)
        REGION[key] = (sorted(exits), assigned, len(seen))
        return REGION[key]

    def _block(self, fn, f, bb, loc, aut, level=0):
        reg = self._region(fn, f, bb)
        if reg is not None:
            exits, assigned, n = reg
            self.stats['tracing_blocks_skipped'] += n
            for l in assigned: loc.pop(l, None)
            for x in exits:
                yield ((frozenset(), frozenset()), x, dict(loc), aut, None)
            return
        blk = f['blocks'][bb]
        for s in blk['stmts']:
            rv, pl = s['rv'], s['pl']; k = rv['k']
            if k == 'use': val = ev_op(loc, rv['op'])
            elif k == 'ref': val = ('ref', json.dumps(rv['pl'], sort_keys=True))
            elif k == 'discr': val = ('discr', deref(loc, get_place(loc, rv['pl'])))
            elif k == 'agg':
                ops = [ev_op(loc, o) for o in rv['ops']]
                adt, var = norm(rv['adt']), rv['variant']
                if adt == 'tuple': val = ('tuple',) + tuple(ops) if any(o != STAR for o in ops) else STAR
                elif adt.startswith('std::task::Poll') or adt.startswith('std::option::Option') or adt.startswith('std::result::Result') or 'ControlFlow' in adt:
                    val = (var, ops[0]) if ops else var
                elif adt in ENUMS and all(n == 0 for _, n in ENUMS[adt]): val = ('E', adt, rv['vidx'])
                else: val = STAR
            elif k == 'un' and rv['op'] == 'Not':
                a = ev_op(loc, rv['a']); val = (not a) if isinstance(a, bool) else STAR
            else: val = STAR
            set_place(loc, pl, val)
        t = blk['term']; k = t['k']
        E = (frozenset(), frozenset())
        if k in ('goto', 'drop', 'assert'):
            yield (E, t['t'], loc, aut, None); return
        if k in ('unreachable', 'coroutine_drop', 'other'): return
        if k == 'yield':
            yield (E, None, loc, aut, 'YIELD'); return
        if k == 'return':
            r = loc.get(0, STAR)
            if isinstance(r, tuple) and r and r[0] == 'ref': r = STAR
            yield (E, None, loc, aut, r); return
        if k == 'switch':
            d = ev_op(loc, t['discr'])
            dv = discr_of(d[1]) if (isinstance(d, tuple) and d and d[0] == 'discr') else ((1 if d else 0) if isinstance(d, bool) else None)
            if dv is not None:
                nxt = [b for (v, b) in t['targets'] if v == dv] or [t['otherwise']]
                yield (E, nxt[0], loc, aut, None); return
            for b in sorted(set([b for (_, b) in t['targets']] + [t['otherwise']])):
                yield (E, b, dict(loc), aut, None)
            return
        if k == 'call':
            if t['target'] is None: return
            callee = t['resolved'] if t['resolved'] in FN else t['callee']
            nlevel = level
            if callee not in FN and t['callee']:
                st_ = (t['self_ty'] or '')
                if re.fullmatch(r'[A-Z]\w*', st_) and level < len(CHAIN) and (t['callee'], CHAIN[level]) in IMPLS:
                    callee = IMPLS[(t['callee'], CHAIN[level])]; nlevel = level + 1
                elif t['callee'] == 'futures::StreamExt::poll_next_unpin' and ('futures::Stream::poll_next', st_.split('<')[0]) in IMPLS:
                    callee = IMPLS[('futures::Stream::poll_next', st_.split('<')[0])]
            args = [ev_op(loc, a) for a in t['args']]
            site = '%s:%s' % (t.get('file'), t.get('line'))
            # &mut refs passed to callee: havoc their referents afterwards (unless modelled pure)
            mut_targets = []
            for a in args:
                if isinstance(a, tuple) and a and a[0] == 'ref':
                    mut_targets.append(json.loads(a[1]))
            dargs = tuple(deref(loc, a) for a in args)
            if callee in FN and callee != fn:
                cargs = tuple(STAR if (isinstance(a, tuple) and a and a[0] == 'ref') else a for a in args)
                self.stats['calls'] += 1
                for (ret, aut2, labels) in self.summarize(callee, cargs, aut, nlevel):
                    if ret == 'YIELD': continue
                    l2 = dict(loc)
                    set_place(l2, t['dest'], ret)
                    yield (labels, t['target'], l2, aut2, None)
                return
            ev = classify(t)
            dest_ty = FN[fn]['locals'][t['dest']['l']]['ty'] if not t['dest']['p'] else '?'
            res = None if is_tracing(t) else model_call(t['callee'] or '', dargs, dest_ty)
            if res is None:
                if is_tracing(t) or t['dest']['p']: res = [STAR]
                else:
                    res = universe(dest_ty)
                    if res != [STAR] and not ev: self.unmodelled[t['callee']] += 1
            for shape in res:
                l2 = dict(loc); set_place(l2, t['dest'], shape)
                a2, labels = aut, E
                if ev:
                    a2 = self.A.step(aut, ev, shape, site, self.viol)
                    _l = frozenset(['%s.%s=%s' % (ev[0], ev[1], shape if isinstance(shape, str) else ('Ready' + repr(shape[1]) if (isinstance(shape, tuple) and shape[0] == 'Ready') else repr(shape)))])
                    labels = (_l, _l)
                yield (labels, t['target'], l2, a2, None)
            return
        raise Exception('unhandled ' + k)

if __name__ == '__main__':
    entry = sys.argv[1] if len(sys.argv) > 1 else '<client::RequestDispatch<Req, Resp, C> as futures::Future>::poll'
    which = sys.argv[2] if len(sys.argv) > 2 else 'sink'
    A = CloseAut() if which == 'close' else SinkAut() if which == 'sink' else (VecAut() if which == 'vec' else (CtxAut(which[4:]) if which.startswith('ctx_') else SrcAut(which)))
    t0 = time.time()
    I = Interp(A)
    res = I.summarize(entry, tuple(STAR for _ in range(FN[entry]['argc'])), A.init())
    print('automaton', A.name, 'states', I.stats['states'], 'summaries', len(I.memo), 'calls', I.stats['calls'], 'time %.1fs' % (time.time() - t0))
    print('--- exits (return shape, automaton state)')
    for (ret, aut, labels) in sorted(res, key=repr):
        print('  ', ret, aut)
    print('--- violations')
    for v, n in I.viol.items(): print('  ', v, n)
    print('--- SPIN: cycles without must-progress re-observing a Pending poll_ready')
    for v, n in I.spin.items(): print('  ', v, n)
    print('--- loops re-observing a Pending poll_ready')
    for v, n in I.loops.items(): print('  ', v, n)
    print('--- unmodelled external calls forked on type universe')
    for c, n in I.unmodelled.most_common(12): print('  ', n, c)
