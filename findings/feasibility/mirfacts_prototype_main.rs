#![feature(rustc_private)]
extern crate rustc_driver;
extern crate rustc_interface;
extern crate rustc_middle;
extern crate rustc_hir;
extern crate rustc_span;
extern crate rustc_abi;

use rustc_driver::{Callbacks, Compilation};
use rustc_interface::interface::Compiler;
use rustc_middle::ty::{self, TyCtxt};
use rustc_middle::mir::{self, TerminatorKind, StatementKind, Rvalue, Operand, Place, PlaceElem, AggregateKind, Body};
use rustc_middle::mir::PlaceTy;
use rustc_hir::def::DefKind;
use rustc_span::Span;

fn esc(s: &str) -> String {
    let mut o = String::with_capacity(s.len() + 2);
    o.push('"');
    for c in s.chars() {
        match c {
            '"' => o.push_str("\\\""), '\\' => o.push_str("\\\\"), '\n' => o.push_str("\\n"), '\t' => o.push_str("\\t"), '\r' => o.push_str("\\r"),
            c if (c as u32) < 0x20 => o.push_str(&format!("\\u{:04x}", c as u32)),
            c => o.push(c),
        }
    }
    o.push('"'); o
}

struct Cx<'a, 'tcx> { tcx: TyCtxt<'tcx>, body: &'a Body<'tcx> }

impl<'a, 'tcx> Cx<'a, 'tcx> {
    fn field_name(&self, pty: PlaceTy<'tcx>, idx: usize) -> String {
        match pty.ty.kind() {
            ty::Adt(def, _) => {
                let v = match pty.variant_index { Some(v) => v, None => { if def.is_enum() { return format!("{idx}"); } rustc_abi::FIRST_VARIANT } };
                def.variant(v).fields.iter().nth(idx).map(|f| f.name.to_string()).unwrap_or(format!("{idx}"))
            }
            ty::Closure(did, _) | ty::Coroutine(did, _) | ty::CoroutineClosure(did, _) => {
                if let Some(ldid) = did.as_local() {
                    let caps = self.tcx.closure_captures(ldid);
                    if let Some(c) = caps.get(idx) { return c.to_symbol().to_string(); }
                }
                format!("{idx}")
            }
            _ => format!("{idx}"),
        }
    }
    fn place(&self, p: &Place<'tcx>) -> String {
        let mut pty = PlaceTy::from_ty(self.body.local_decls[p.local].ty);
        let mut parts = vec![];
        for elem in p.projection.iter() {
            match elem {
                PlaceElem::Field(f, _) => parts.push(format!("[\"f\",{},{}]", f.as_usize(), esc(&self.field_name(pty, f.as_usize())))),
                PlaceElem::Deref => parts.push("[\"d\"]".to_string()),
                PlaceElem::Downcast(name, vi) => parts.push(format!("[\"dc\",{},{}]", esc(&name.map(|s| s.to_string()).unwrap_or_default()), vi.as_usize())),
                PlaceElem::Index(_) | PlaceElem::ConstantIndex { .. } | PlaceElem::Subslice { .. } => parts.push("[\"i\"]".to_string()),
                _ => parts.push("[\"o\"]".to_string()),
            }
            pty = pty.projection_ty(self.tcx, elem);
        }
        format!("{{\"l\":{},\"p\":[{}]}}", p.local.as_usize(), parts.join(","))
    }
    fn operand(&self, o: &Operand<'tcx>) -> String {
        match o {
            Operand::Copy(p) => format!("{{\"k\":\"copy\",\"pl\":{}}}", self.place(p)),
            Operand::Move(p) => format!("{{\"k\":\"move\",\"pl\":{}}}", self.place(p)),
            Operand::Constant(c) => {
                let ty = c.const_.ty();
                let mut extra = String::new();
                if let ty::FnDef(did, args) = ty.kind() {
                    extra = format!(",\"fn\":{},\"substs\":{}", esc(&self.tcx.def_path_str(*did)), esc(&format!("{:?}", args)));
                }
                format!("{{\"k\":\"const\",\"ty\":{},\"v\":{}{}}}", esc(&format!("{}", ty)), esc(&format!("{}", c.const_)), extra)
            }
            _ => format!("{{\"k\":\"other\",\"s\":{}}}", esc(&format!("{:?}", o))),
        }
    }
    fn rvalue(&self, rv: &Rvalue<'tcx>) -> String {
        match rv {
            Rvalue::Use(o, ..) => format!("{{\"k\":\"use\",\"op\":{}}}", self.operand(o)),
            Rvalue::Ref(_, bk, p) => format!("{{\"k\":\"ref\",\"mut\":{},\"pl\":{}}}", matches!(bk, mir::BorrowKind::Mut { .. }), self.place(p)),
            Rvalue::RawPtr(_, p) => format!("{{\"k\":\"ref\",\"raw\":true,\"mut\":true,\"pl\":{}}}", self.place(p)),
            Rvalue::BinaryOp(op, ab) => format!("{{\"k\":\"bin\",\"op\":{},\"a\":{},\"b\":{}}}", esc(&format!("{:?}", op)), self.operand(&ab.0), self.operand(&ab.1)),
            Rvalue::UnaryOp(op, a) => format!("{{\"k\":\"un\",\"op\":{},\"a\":{}}}", esc(&format!("{:?}", op)), self.operand(a)),
            Rvalue::Discriminant(p) => format!("{{\"k\":\"discr\",\"pl\":{}}}", self.place(p)),
            Rvalue::Cast(kind, o, ty) => format!("{{\"k\":\"cast\",\"ck\":{},\"op\":{},\"ty\":{}}}", esc(&format!("{:?}", kind)), self.operand(o), esc(&format!("{}", ty))),
            Rvalue::Aggregate(kind, ops) => {
                let opss: Vec<String> = ops.iter().map(|o| self.operand(o)).collect();
                let mut vidx = 0usize;
                let (adt, variant, fields) = match &**kind {
                    AggregateKind::Adt(did, vi, _, _, _) => {
                        let def = self.tcx.adt_def(*did);
                        let v = def.variant(*vi);
                        vidx = vi.as_usize();
                        (self.tcx.def_path_str(*did), Some(v.name.to_string()), v.fields.iter().map(|f| f.name.to_string()).collect::<Vec<_>>())
                    }
                    AggregateKind::Tuple => ("tuple".to_string(), None, vec![]),
                    AggregateKind::Closure(did, _) => (format!("closure:{}", self.tcx.def_path_str(*did)), None,
                        did.as_local().map(|l| self.tcx.closure_captures(l).iter().map(|c| c.to_symbol().to_string()).collect()).unwrap_or_default()),
                    AggregateKind::Coroutine(did, _) => (format!("coroutine:{}", self.tcx.def_path_str(*did)), None,
                        did.as_local().map(|l| self.tcx.closure_captures(l).iter().map(|c| c.to_symbol().to_string()).collect()).unwrap_or_default()),
                    AggregateKind::CoroutineClosure(did, _) => (format!("coroutine_closure:{}", self.tcx.def_path_str(*did)), None, vec![]),
                    AggregateKind::Array(_) => ("array".to_string(), None, vec![]),
                    _ => ("other".to_string(), None, vec![]),
                };
                format!("{{\"k\":\"agg\",\"vidx\":{},\"adt\":{},\"variant\":{},\"fields\":[{}],\"ops\":[{}]}}", vidx, esc(&adt),
                    variant.map(|v| esc(&v)).unwrap_or("null".into()), fields.iter().map(|f| esc(f)).collect::<Vec<_>>().join(","), opss.join(","))
            }
            _ => format!("{{\"k\":\"other\",\"s\":{}}}", esc(&format!("{:?}", rv))),
        }
    }
    fn span(&self, sp: Span) -> String {
        let sm = self.tcx.sess.source_map();
        let mut expn = String::new();
        let mut s = sp;
        // record outermost macro name chain
        let mut names = vec![];
        while s.from_expansion() {
            let ed = s.ctxt().outer_expn_data();
            if let Some(did) = ed.macro_def_id { names.push(self.tcx.def_path_str(did)); } else { names.push(format!("{:?}", ed.kind)); }
            s = ed.call_site;
        }
        if !names.is_empty() { expn = format!(",\"expn\":[{}]", names.iter().map(|n| esc(n)).collect::<Vec<_>>().join(",")); }
        let loc = sm.lookup_char_pos(s.lo());
        format!("\"file\":{},\"line\":{}{}", esc(&format!("{}", loc.file.name.prefer_local_unconditionally())), loc.line, expn)
    }
}

struct Cb;
impl Callbacks for Cb {
    fn after_expansion<'tcx>(&mut self, _c: &Compiler, tcx: TyCtxt<'tcx>) -> Compilation {
        let krate = tcx.crate_name(rustc_hir::def_id::LOCAL_CRATE).to_string();
        let want = std::env::var("MIRFACTS_CRATES").unwrap_or_default();
        if !want.split(',').any(|c| c == krate) { return Compilation::Continue; }
        let mut fns = vec![];
        // Pass 1: clone every built body before anything can trigger borrowck (which steals mir_built).
        let mut bodies = vec![];
        for def in tcx.hir_body_owners() {
            let kind = tcx.def_kind(def);
            if !matches!(kind, DefKind::Fn | DefKind::AssocFn | DefKind::Closure) { continue; }
            let body: Body<'tcx> = tcx.mir_built(def).borrow().clone();
            bodies.push((def, kind, body));
        }
        for (def, kind, body) in bodies.iter() {
            let (def, kind) = (*def, *kind);
            let path = tcx.def_path_str(def.to_def_id());
            let cx = Cx { tcx, body };
            let mut names = vec![None; body.local_decls.len()];
            for vdi in &body.var_debug_info {
                if let mir::VarDebugInfoContents::Place(p) = &vdi.value { if p.projection.is_empty() { names[p.local.as_usize()] = Some(vdi.name.to_string()); } }
            }
            let locals: Vec<String> = body.local_decls.iter_enumerated().map(|(l, d)| format!("{{\"ty\":{},\"name\":{}}}", esc(&format!("{}", d.ty)), names[l.as_usize()].as_ref().map(|n| esc(n)).unwrap_or("null".into()))).collect();
            let mut blocks = vec![];
            for (_bb, data) in body.basic_blocks.iter_enumerated() {
                let mut stmts = vec![];
                for st in &data.statements {
                    if let StatementKind::Assign(b) = &st.kind {
                        stmts.push(format!("{{\"k\":\"assign\",\"pl\":{},\"rv\":{},{}}}", cx.place(&b.0), cx.rvalue(&b.1), cx.span(st.source_info.span)));
                    }
                }
                let term = data.terminator();
                let sp = cx.span(term.source_info.span);
                let t = match &term.kind {
                    TerminatorKind::Call { func, args, destination, target, .. } => {
                        let (callee, substs, selfty, resolved) = match func.const_fn_def() {
                            Some((did, ga)) => {
                                let selfty = if tcx.trait_of_assoc(did).is_some() || tcx.impl_of_assoc(did).is_some() { ga.types().next().map(|t| format!("{}", t)) } else { None };
                                let resolved = { let te = ty::TypingEnv::post_analysis(tcx, def.to_def_id());
                                    match ty::Instance::try_resolve(tcx, te, did, ga) { Ok(Some(inst)) => Some(tcx.def_path_str(inst.def_id())), _ => None } };
                                (esc(&tcx.def_path_str(did)), esc(&format!("{:?}", ga)), selfty, resolved)
                            }
                            None => ("null".to_string(), "null".to_string(), None, None),
                        };
                        let fop = cx.operand(func);
                        let a: Vec<String> = args.iter().map(|a| cx.operand(&a.node)).collect();
                        format!("{{\"k\":\"call\",\"callee\":{},\"substs\":{},\"self_ty\":{},\"resolved\":{},\"func\":{},\"args\":[{}],\"dest\":{},\"target\":{},{}}}",
                            callee, substs, selfty.map(|s| esc(&s)).unwrap_or("null".into()), resolved.map(|s| esc(&s)).unwrap_or("null".into()), fop, a.join(","), cx.place(destination),
                            target.map(|t| t.as_usize().to_string()).unwrap_or("null".into()), sp)
                    }
                    TerminatorKind::SwitchInt { discr, targets } => {
                        let ts: Vec<String> = targets.iter().map(|(v, t)| format!("[{},{}]", v, t.as_usize())).collect();
                        format!("{{\"k\":\"switch\",\"discr\":{},\"targets\":[{}],\"otherwise\":{},{}}}", cx.operand(discr), ts.join(","), targets.otherwise().as_usize(), sp)
                    }
                    TerminatorKind::Goto { target } => format!("{{\"k\":\"goto\",\"t\":{}}}", target.as_usize()),
                    TerminatorKind::Return => format!("{{\"k\":\"return\",{}}}", sp),
                    TerminatorKind::Unreachable => "{\"k\":\"unreachable\"}".to_string(),
                    TerminatorKind::Drop { place, target, .. } => format!("{{\"k\":\"drop\",\"pl\":{},\"t\":{},{}}}", cx.place(place), target.as_usize(), sp),
                    TerminatorKind::Yield { resume, drop, .. } => format!("{{\"k\":\"yield\",\"t\":{},\"drop\":{},{}}}", resume.as_usize(), drop.map(|d| d.as_usize().to_string()).unwrap_or("null".into()), sp),
                    TerminatorKind::FalseEdge { real_target, .. } => format!("{{\"k\":\"goto\",\"t\":{},\"false\":true}}", real_target.as_usize()),
                    TerminatorKind::FalseUnwind { real_target, .. } => format!("{{\"k\":\"goto\",\"t\":{},\"loophead\":true}}", real_target.as_usize()),
                    TerminatorKind::Assert { target, msg, .. } => format!("{{\"k\":\"assert\",\"t\":{},\"msg\":{},{}}}", target.as_usize(), esc(&format!("{:?}", msg)), sp),
                    TerminatorKind::CoroutineDrop => "{\"k\":\"coroutine_drop\"}".to_string(),
                    k => format!("{{\"k\":\"other\",\"s\":{}}}", esc(&format!("{:?}", k))),
                };
                blocks.push(format!("{{\"cleanup\":{},\"stmts\":[{}],\"term\":{}}}", data.is_cleanup, stmts.join(","), t));
            }
            let parent = tcx.opt_parent(def.to_def_id()).map(|p| tcx.def_path_str(p)).unwrap_or_default();
            fns.push(format!("{{\"path\":{},\"kind\":{},\"parent\":{},\"argc\":{},{},\"locals\":[{}],\"blocks\":[{}]}}",
                esc(&path), esc(&format!("{:?}", kind)), esc(&parent), body.arg_count, cx.span(body.span), locals.join(","), blocks.join(",")));
        }
        let mut enums = vec![];
        for id in tcx.hir_free_items() {
            let did = id.owner_id.to_def_id();
            if tcx.def_kind(did) == DefKind::Enum {
                let def = tcx.adt_def(did);
                let vs: Vec<String> = def.variants().iter().map(|v| format!("[{},{}]", esc(&v.name.to_string()), v.fields.len())).collect();
                enums.push(format!("{}:[{}]", esc(&tcx.def_path_str(did)), vs.join(",")));
            }
        }
        let out = format!("{{\"crate\":{},\"enums\":{{{}}},\"fns\":[\n{}\n]}}\n", esc(&krate), enums.join(","), fns.join(",\n"));
        let dir = std::env::var("MIRFACTS_OUT").unwrap_or("/tmp/proto/facts".into());
        std::fs::create_dir_all(&dir).unwrap();
        std::fs::write(format!("{}/{}.json", dir, krate), out).unwrap();
        Compilation::Continue
    }
}
fn main() {
    let mut args: Vec<String> = std::env::args().collect();
    args.remove(1);
    rustc_driver::run_compiler(&args, &mut Cb);
}
