#!/usr/bin/env python3
"""Regenerates MANIFEST.json from the META tables of rules/Cxx.py (single source of truth)."""
import importlib
import json
import os
import sys

VERIF = os.path.dirname(os.path.dirname(os.path.abspath(__file__)))
sys.path.insert(0, VERIF)

props = [json.loads(l) for l in open(os.path.join(VERIF, 'properties.jsonl'))]
checks, na = [], []
for p in props:
    pid = p['id']
    try:
        mod = importlib.import_module('rules.' + pid)
        meta = mod.META
    except Exception as e:  # noqa
        if os.path.exists(os.path.join(VERIF, 'rules', pid + '.py')):
            raise SystemExit('rules/%s.py exists but does not import (%s): fix it; a broken module must not silently turn its property into not_applicable' % (pid, e))
        na.append({'property_id': pid, 'reason': 'no static check built yet for this property in this tree of /verif (see DESIGN.md section 4 for the planned clauses)'})
        continue
    checks.append({
        'property_id': pid,
        'quick_cmd': './bin/check %s --tier quick' % pid,
        'thorough_cmd': './bin/check %s --tier thorough' % pid,
        'evidence_file': '/verif/evidence/%s.json' % pid,
        'replay_cmd_template': './bin/check --explain {path}',
        'engine': meta.get('engine', 'mirfacts + python rule engine'),
        'level_claimed': {'category': meta.get('level', 'other'), 'text': meta['text'], 'design_ref': meta.get('design_ref', 'DESIGN.md section 4, ' + pid)},
        'level_note': meta['note'],
        'technique': meta['technique'],
    })
m = {
    'version': 1,
    'setup_cmd': './bin/setup',
    'hooks': {
        'guard': 'google_tarpc_verif',
        'enable': 'none needed: the analysis reads the ordinary build (cargo +nightly check through the mirfacts rustc driver); no hook code exists in /repo',
        'baseline_off_cmd': 'cd /repo && cargo test --workspace --no-fail-fast --offline',
        'source_commits': [],
        'add_only': True,
    },
    'engines': [
        {'name': 'mirfacts', 'path': 'tools/mirfacts', 'serves_properties': [c['property_id'] for c in checks],
         'kind_free_text': 'rustc_private driver dumping type-checked MIR (mir_built), resolved callees, ADT and impl tables of the real build as JSON facts'},
        {'name': 'engine', 'path': 'engine', 'serves_properties': [c['property_id'] for c in checks],
         'kind_free_text': 'python: E-Q who-may-call/construct queries, E-CFG dominator/cut rules, E-PROV provenance terms, E-SHAPE abstract walker over MIR'},
    ],
    'checks': checks,
    'not_applicable': na,
    'notes': 'Static analysis only: every verdict is computed from /repo\'s current source as the compiler sees it; nothing of tarpc is executed. '
             'Exit 2 (CANNOT-DECIDE) means an anchor could not be bound or the tree does not build — the checker fails closed. '
             'known_findings.json lists genuine defects that are recorded rather than repaired (D5, D6) and the four repaired ones (fixed:).',
}
json.dump(m, open(os.path.join(VERIF, 'MANIFEST.json'), 'w'), indent=1)
print('MANIFEST.json: %d checks, %d not_applicable' % (len(checks), len(na)))
