"""E-SHAPE: explicit-state exploration of the abstracted program rooted at one entry point.

Abstract values ("shapes") are constructor trees of Poll / Option / Result / ControlFlow / bool /
field-less local enums / tuples of those, truncated at depth 4; everything else is `*`.  A call to a
callee that is not analysed forks the state once per possible shape of its result type, so every
later decision tree is deterministic.  Callees that are bodies of the analysed crate are summarised
per (body, abstract args, env, devirtualisation level); `tracing::*` expansion regions are collapsed.
Events (calls to watched library functions on identified resources) drive a small rule automaton
whose state is part of the exploration state.  Nothing is executed: this is an abstract
interpretation of the MIR facts."""
import collections
import json
import re

from .facts import split_top, is_tracing, strip_generics

STAR = '*'
SELFREF = ('selfref',)     # the struct owning the tracked cells, reached directly (self / Pin<&mut Self> / &mut Self)
SELFPROJ = ('selfproj',)   # its pin-project projection
DISCR = {'Pending': 1, 'Ready': 0, 'None': 0, 'Some': 1, 'Ok': 0, 'Err': 1, 'Continue': 0, 'Break': 1}
CMP_OPS = ('Lt', 'Le', 'Gt', 'Ge', 'Eq', 'Ne')


class Budget(Exception):
    pass


class Explorer:
    def __init__(self, F, automaton, classify, chain=(), cell_accessors=None, cmp_sites=None, max_states=1500000, depth=4,
                 kill_facts=None, sticky=('Q', 'K', 'P', 'R'), boundary=None):
        self.F = F
        self.A = automaton
        self.classify = classify
        self.chain = list(chain)
        self.cell_accessors = cell_accessors or {}     # fn id -> cell name
        self.cmp_sites = cmp_sites or {}               # (fn id, bb, stmt idx) -> fact name
        self.cell_names = set((cell_accessors or {}).values())
        self._proj_depth = 0
        self.kill_facts = kill_facts or (lambda ev, shape: ())
        self.sticky = set(sticky)
        self._closure_cache = {}
        self.COMBINATORS = self._mk_combinators()
        self.spin_edges = {}
        self.boundary = boundary
        self.cur_facts = frozenset()
        self.max_states = max_states
        self.depth = depth
        self.memo = {}
        self.inprog = set()
        self.viol = collections.Counter()
        self.viol_sites = {}
        self.stats = collections.Counter()
        self.unmodelled = collections.Counter()
        self.spin = {}
        self.repolls = collections.Counter()
        self.ucache = {}
        self.live = {}
        self.region = {}
        self.impls = {}
        for im in F.impls:
            tr = im['trait'].split('<')[0]
            if im['self_head']:
                for name, mid in im['methods']:
                    self.impls[(tr + '::' + name, im['self_head'])] = mid
        self.enums0 = {k: v for k, v in F.enums.items() if all(int(x[1]) == 0 for x in v) and k in F.adts}
        # local enums that carry a payload ("carrier" enums a refactoring introduces to hand a classified result from one step to the next): tracked by
        # variant, with the shape of their first field
        self.enumsN = {k: v for k, v in F.enums.items() if k in F.adts and F.adts[k].get('kind') == 'Enum' and any(int(x[1]) > 0 for x in v) and len(v) <= 8
                       and not F.has_impl('Error', k)}    # error enums are payloads, never control state: not tracked (keeps the state space small)

    # ------------------------------------------------------------------ type universes
    def universe(self, t, depth=None):
        if depth is None:
            depth = self.depth
        key = (t, depth)
        r = self.ucache.get(key)
        if r is None:
            r = self._universe(t.strip(), depth)
            self.ucache[key] = r
        return r

    def _universe(self, t, depth):
        if depth == 0:
            return [STAR]
        if t == 'bool':
            return [True, False]
        if t.startswith('&'):
            return [STAR]
        if t.startswith('(') and t.endswith(')') and t != '()':
            us = [self.universe(p, depth - 1) for p in split_top(t[1:-1])]
            if all(u == [STAR] for u in us):
                return [STAR]
            out = [()]
            for u in us:
                out = [o + (s,) for o in out for s in u]
            return [('tuple',) + o for o in out]
        if t in self.enums0:
            return [('E', t, int(v[2])) for v in self.enums0[t]]
        th = t.split('<')[0]
        if th in self.enumsN:
            return [('EV', th, int(v[2]), STAR) for v in self.enumsN[th]]
        i = t.find('<')
        if i > 0 and t.endswith('>'):
            head, args = t[:i], split_top(t[i + 1:-1])
            h = head.split('::')[-1]
            if head.startswith('std::') or head.startswith('core::'):
                if h == 'Poll' and len(args) == 1:
                    return ['Pending'] + [('Ready', s) for s in self.universe(args[0], depth - 1)]
                if h == 'Option' and len(args) == 1:
                    return ['None'] + [('Some', s) for s in self.universe(args[0], depth - 1)]
                if h == 'Result' and len(args) == 2:
                    return [('Ok', s) for s in self.universe(args[0], depth - 1)] + [('Err', STAR)]
                if h == 'ControlFlow':
                    b = self.universe(args[0], depth - 1)
                    c = self.universe(args[1], depth - 1) if len(args) > 1 else [STAR]
                    return [('Continue', s) for s in c] + [('Break', s) for s in b]
        return [STAR]

    @staticmethod
    def discr_of(s):
        if s is True:
            return 1
        if s is False:
            return 0
        if isinstance(s, str):
            return DISCR.get(s)
        if isinstance(s, tuple) and s:
            if s[0] in ('E', 'EV'):
                return s[2]
            return DISCR.get(s[0])
        return None

    # ------------------------------------------------------------------ liveness
    def liveness(self, f):
        r = self.live.get(f.id)
        if r is not None:
            return r
        n = len(f.blocks)
        use, deff, succ, addr = [set() for _ in range(n)], [set() for _ in range(n)], [[] for _ in range(n)], set()

        def oploc(op):
            return [op['pl']['l']] if op.get('k') in ('copy', 'move') else []
        for i, b in enumerate(f.blocks):
            u, d = use[i], deff[i]

            def U(l):
                if l not in d:
                    u.add(l)
            for st in b['stmts']:
                rv = st['rv']
                for key in ('op', 'a', 'b'):
                    if isinstance(rv.get(key), dict):
                        for l in oploc(rv[key]):
                            U(l)
                for o in rv.get('ops', []):
                    for l in oploc(o):
                        U(l)
                if rv['k'] in ('ref', 'discr'):
                    U(rv['pl']['l'])
                    if rv['k'] == 'ref':
                        addr.add(rv['pl']['l'])
                if st['pl']['p']:
                    U(st['pl']['l'])
                else:
                    d.add(st['pl']['l'])
            t = b['term']
            k = t['k']
            if k == 'call':
                for a in t['args']:
                    for l in oploc(a):
                        U(l)
                for l in oploc(t['func']):
                    U(l)
                if t['dest']['p']:
                    U(t['dest']['l'])
                else:
                    d.add(t['dest']['l'])
                if t['target'] is not None:
                    succ[i].append(t['target'])
            elif k == 'switch':
                for l in oploc(t['discr']):
                    U(l)
                succ[i] += [x for (_, x) in t['targets']] + [t['otherwise']]
            elif k in ('goto', 'drop', 'assert', 'yield'):
                if k == 'drop':
                    U(t['pl']['l'])
                succ[i].append(t['t'])
            elif k == 'return':
                U(0)
        live_in = [set() for _ in range(n)]
        changed = True
        while changed:
            changed = False
            for i in range(n - 1, -1, -1):
                out = set()
                for x in succ[i]:
                    out |= live_in[x]
                new = use[i] | (out - deff[i])
                if new != live_in[i]:
                    live_in[i] = new
                    changed = True
        self.live[f.id] = (live_in, addr)
        return self.live[f.id]

    # ------------------------------------------------------------------ places over abstract locals
    def get_place(self, loc, cells, pl):
        v = loc.get(pl['l'], STAR)
        for e in pl['p']:
            if isinstance(v, tuple) and v and v[0] == 'ref' and e[0] == 'd':
                v = self.get_place(loc, cells, json.loads(v[1]))
                continue
            if isinstance(v, tuple) and v and v[0] == 'cellref' and e[0] == 'd':
                v = cells.get(v[1], STAR)
                continue
            if v == SELFREF:
                # the struct that owns the tracked cells (reached directly, not through an accessor): derefs stay on it, a cell field reads the cell
                if e[0] in ('d', 'dc'):
                    continue
                if e[0] == 'f' and len(e) > 2 and str(e[2]) in self.cell_names:
                    v = cells.get(str(e[2]), STAR) if self._proj_depth == 0 else ('cellref', str(e[2]))
                    continue
                return STAR
            if v == SELFPROJ:
                # pin-project's projection struct: its fields are references to the fields
                if e[0] in ('d', 'dc'):
                    continue
                if e[0] == 'f' and len(e) > 2 and str(e[2]) in self.cell_names:
                    v = ('cellref', str(e[2]))
                    continue
                return STAR
            if v == STAR:
                return STAR
            if e[0] in ('d', 'dc'):
                continue
            if e[0] == 'f':
                if isinstance(v, tuple) and v[0] == 'tuple':
                    v = v[1 + e[1]] if 1 + e[1] < len(v) else STAR
                elif isinstance(v, tuple) and v[0] in DISCR:
                    v = v[1] if e[1] == 0 else STAR
                elif isinstance(v, tuple) and v[0] == 'EV':
                    v = v[3] if e[1] == 0 else STAR
                else:
                    return STAR
            else:
                return STAR
        return v

    def deref(self, loc, cells, v):
        n = 0
        while isinstance(v, tuple) and v and n < 5:
            if v[0] == 'ref':
                v = self.get_place(loc, cells, json.loads(v[1]))
            elif v[0] == 'cellref':
                v = cells.get(v[1], STAR)
            else:
                break
            n += 1
        return v

    def set_place(self, loc, cells, pl, val):
        if not pl['p']:
            if val == STAR:
                loc.pop(pl['l'], None)
            else:
                loc[pl['l']] = val
            return
        base = loc.get(pl['l'], STAR)
        if base in (SELFREF, SELFPROJ):
            fs = [e for e in pl['p'] if e[0] == 'f']
            if len(fs) == 1 and len(fs[0]) > 2 and str(fs[0][2]) in self.cell_names and pl['p'][-1] == fs[0] or (base == SELFPROJ and len(fs) == 1 and len(fs[0]) > 2 and str(fs[0][2]) in self.cell_names):
                name = str(fs[0][2])
                if val == STAR:
                    cells.pop(name, None)
                else:
                    cells[name] = val
            return
        if isinstance(base, tuple) and base and base[0] == 'ref' and pl['p'][0][0] == 'd':
            r = json.loads(base[1])
            self.set_place(loc, cells, {'l': r['l'], 'p': r['p'] + pl['p'][1:]}, val)
            return
        if isinstance(base, tuple) and base and base[0] == 'cellref' and pl['p'][0][0] == 'd' and len(pl['p']) == 1:
            if val == STAR:
                cells.pop(base[1], None)
            else:
                cells[base[1]] = val
            return
        if isinstance(base, tuple) and base and base[0] == 'tuple' and len(pl['p']) == 1 and pl['p'][0][0] == 'f':
            lst = list(base)
            if 1 + pl['p'][0][1] < len(lst):
                lst[1 + pl['p'][0][1]] = val
                loc[pl['l']] = tuple(lst)
            return
        if base != STAR and not (isinstance(base, tuple) and base and base[0] in ('ref', 'cellref')):
            loc.pop(pl['l'], None)

    def ev_op(self, loc, cells, op):
        if op['k'] in ('copy', 'move'):
            return self.get_place(loc, cells, op['pl'])
        if op['k'] == 'const' and op['ty'] == 'bool':
            return 'true' in op['v']
        return STAR

    # ------------------------------------------------------------------ library models (Appendix B)
    def model_call(self, c, args, dest_ty):
        a0 = args[0] if args else STAR
        if c.endswith('::map_err') or c.endswith('::map_ok') or (c.startswith('std::task::Poll') and c.endswith('::map')) \
                or c in ('std::option::Option::map', 'std::result::Result::map'):
            if a0 == STAR:
                return None
            if c in ('std::option::Option::map', 'std::result::Result::map') or c.endswith('Poll::map'):
                # payload changes type: keep constructor, forget payload
                if isinstance(a0, tuple) and a0[0] in ('Some', 'Ok', 'Ready'):
                    # re-universe the payload from the destination type
                    cands = [x for x in self.universe(dest_ty) if (isinstance(x, tuple) and x[0] == a0[0])]
                    return cands or [(a0[0], STAR)]
                return [a0]
            return [a0]
        if c == 'std::ops::Try::branch':
            s = a0
            if s == STAR:
                return None
            if s == 'Pending':
                return [('Continue', 'Pending')]
            if s == 'None':
                return [('Break', 'None')]
            if isinstance(s, tuple):
                if s[0] == 'Ready':
                    p = s[1]
                    if p == 'None':
                        return [('Continue', ('Ready', 'None'))]
                    if isinstance(p, tuple) and p[0] == 'Some':
                        q = p[1]
                        if isinstance(q, tuple) and q[0] == 'Ok':
                            return [('Continue', ('Ready', ('Some', q[1])))]
                        if isinstance(q, tuple) and q[0] == 'Err':
                            return [('Break', ('Err', STAR))]
                    if isinstance(p, tuple) and p[0] == 'Ok':
                        return [('Continue', ('Ready', p[1]))]
                    if isinstance(p, tuple) and p[0] == 'Err':
                        return [('Break', ('Err', STAR))]
                if s[0] == 'Ok':
                    return [('Continue', s[1])]
                if s[0] == 'Err':
                    return [('Break', ('Err', STAR))]
                if s[0] == 'Some':
                    return [('Continue', s[1])]
            return None
        if c == 'std::ops::FromResidual::from_residual':
            if a0 == 'None':
                return ['None']
            u = self.universe(dest_ty)
            cands = [x for x in u if 'Err' in repr(x)]
            return cands[-1:] or None
        if c == 'std::task::Poll::is_pending':
            return None if a0 == STAR else [a0 == 'Pending']
        if c == 'std::task::Poll::is_ready':
            return None if a0 == STAR else [a0 != 'Pending']
        if c in ('std::option::Option::is_some', 'std::result::Result::is_ok'):
            return None if a0 == STAR else [not (a0 == 'None' or (isinstance(a0, tuple) and a0[0] == 'Err'))]
        if c in ('std::option::Option::is_none', 'std::result::Result::is_err'):
            return None if a0 == STAR else [a0 == 'None' or (isinstance(a0, tuple) and a0[0] == 'Err')]
        if c in ('std::convert::Into::into', 'std::convert::From::from') and a0 != STAR:
            if a0 in self.universe(dest_ty):
                return [a0]
        return None

    # ------------------------------------------------------------------ closures handed to std combinators
    def closure_body(self, f, op):
        if op.get('k') not in ('move', 'copy') or op['pl']['p']:
            return None
        key = (f.id, op['pl']['l'])
        if key in self._closure_cache:
            return self._closure_cache[key]
        body = None
        n = 0
        for i, j, st in f.stmts():
            if st['pl']['l'] == op['pl']['l'] and not st['pl']['p']:
                n += 1
                rv = st['rv']
                if rv['k'] == 'agg' and rv['adt'] == 'closure' and rv.get('adt_id') in self.F.fns:
                    body = self.F.fns[rv['adt_id']]
        if n != 1:
            body = None
        self._closure_cache[key] = body
        return body

    @staticmethod
    def _mk_combinators():
        def poll_map(x):
            if x == 'Pending':
                return None, lambda r: 'Pending'
            if isinstance(x, tuple) and x[0] == 'Ready':
                return x[1], lambda r: ('Ready', r)
            return STAR, lambda r: ('Ready', r)

        def option_map(x):
            if x == 'None':
                return None, lambda r: 'None'
            if isinstance(x, tuple) and x[0] == 'Some':
                return x[1], lambda r: ('Some', r)
            return STAR, lambda r: ('Some', r)

        def result_map(x):
            if isinstance(x, tuple) and x[0] == 'Err':
                return None, lambda r: x
            if isinstance(x, tuple) and x[0] == 'Ok':
                return x[1], lambda r: ('Ok', r)
            return STAR, lambda r: ('Ok', r)

        def result_map_err(x):
            if isinstance(x, tuple) and x[0] == 'Ok':
                return None, lambda r: x
            return STAR, lambda r: ('Err', STAR)

        def poll_map_ok(x):
            # Poll<Result<T,E>> or Poll<Option<Result<T,E>>>
            if isinstance(x, tuple) and x[0] == 'Ready':
                p = x[1]
                if isinstance(p, tuple) and p[0] == 'Ok':
                    return p[1], lambda r: ('Ready', ('Ok', r))
                if isinstance(p, tuple) and p[0] == 'Some' and isinstance(p[1], tuple) and p[1][0] == 'Ok':
                    return p[1][1], lambda r: ('Ready', ('Some', ('Ok', r)))
            return None, lambda r: x

        def poll_map_err(x):
            if isinstance(x, tuple) and x[0] == 'Ready':
                p = x[1]
                if isinstance(p, tuple) and p[0] == 'Err':
                    return STAR, lambda r: ('Ready', ('Err', STAR))
                if isinstance(p, tuple) and p[0] == 'Some' and isinstance(p[1], tuple) and p[1][0] == 'Err':
                    return STAR, lambda r: ('Ready', ('Some', ('Err', STAR)))
            return None, lambda r: x
        return {
            'std::task::Poll::map': poll_map, 'std::option::Option::map': option_map, 'std::result::Result::map': result_map,
            'std::result::Result::map_err': result_map_err, 'std::task::Poll::map_ok': poll_map_ok, 'std::task::Poll::map_err': poll_map_err,
        }

    # ------------------------------------------------------------------ tracing regions
    def region_of(self, f, bb):
        key = (f.id, bb)
        if key in self.region:
            return self.region[key]

        def is_tr(b):
            blk = f.blocks[b]
            return is_tracing(blk['term']) and all(is_tracing(s) for s in blk['stmts']) and blk['term']['k'] not in ('return', 'yield')
        if not is_tr(bb):
            self.region[key] = None
            return None
        seen, work, exits, assigned = {bb}, [bb], set(), set()
        while work:
            b = work.pop()
            blk = f.blocks[b]
            for s in blk['stmts']:
                assigned.add(s['pl']['l'])
            t = blk['term']
            k = t['k']
            succ = []
            if k == 'call':
                assigned.add(t['dest']['l'])
                if t['target'] is not None:
                    succ.append(t['target'])
            elif k == 'switch':
                succ += [x for (_, x) in t['targets']] + [t['otherwise']]
            elif k in ('goto', 'drop', 'assert'):
                succ.append(t['t'])
            for x in succ:
                if f.blocks[x]['cleanup']:
                    continue
                if is_tr(x):
                    if x not in seen:
                        seen.add(x)
                        work.append(x)
                else:
                    exits.add(x)
        self.region[key] = (sorted(exits), assigned, len(seen))
        return self.region[key]

    # ------------------------------------------------------------------ callee resolution
    def resolve(self, t, level):
        """-> (local body or None, new devirtualisation level)"""
        F = self.F
        c = F.callee_fn(t)
        if c is not None:
            return c, level
        callee = t.get('callee')
        if not callee:
            return None, level
        st = t.get('self_ty') or ''
        tm = strip_generics(callee)
        if re.fullmatch(r'[A-Z]\w*', st) and level < len(self.chain):
            mid = self.impls.get((tm, self.chain[level]))
            if mid and mid in F.fns:
                return F.fns[mid], level + 1
            # provided trait methods on a type parameter (e.g. Channel::in_flight_requests is required; fine)
        if tm.endswith('StreamExt::poll_next_unpin'):
            head = st.split('<')[0]
            for k, mid in self.impls.items():
                if k[0].endswith('Stream::poll_next') and k[1] == head and mid in F.fns:
                    return F.fns[mid], level
            if re.fullmatch(r'[A-Z]\w*', st) and level < len(self.chain):
                for k, mid in self.impls.items():
                    if k[0].endswith('Stream::poll_next') and k[1] == self.chain[level] and mid in F.fns:
                        return F.fns[mid], level + 1
        return None, level

    # ------------------------------------------------------------------ exploration
    def summarize(self, f, args, env, level=0):
        key = (f.id, args, env, level)
        r = self.memo.get(key)
        if r is not None:
            return r
        if key in self.inprog:
            raise Budget('recursion at ' + f.id)
        self.inprog.add(key)
        try:
            res = self._run(f, args, env, level)
        finally:
            self.inprog.discard(key)
        self.memo[key] = res
        return res

    def _freeze(self, f, bb, loc):
        live_in, addr = self.liveness(f)
        keep = live_in[bb] | addr
        return tuple(sorted(((l, v) for l, v in loc.items() if l in keep), key=lambda x: x[0]))

    def _run(self, f, args, env0, level):
        loc0 = {i + 1: a for i, a in enumerate(args) if a != STAR}
        start = (0, self._freeze(f, 0, loc0), env0)
        seen = {start}
        work = [start]
        graph = collections.defaultdict(set)
        exits = set()
        while work:
            node = work.pop()
            self.stats['states'] += 1
            if self.stats['states'] > self.max_states:
                raise Budget('state budget exceeded (%d) in %s' % (self.max_states, f.id))
            bb, floc, env = node
            for (labels, bb2, loc2, env2, ret) in self._block(f, bb, dict(floc), env, level):
                if bb2 is None:
                    exits.add((ret, env2))
                    graph[node].add((labels, ('EXIT', ret, env2)))
                    continue
                n2 = (bb2, self._freeze(f, bb2, loc2), env2)
                graph[node].add((labels, n2))
                if n2 not in seen:
                    seen.add(n2)
                    work.append(n2)
        # may-labels (union over paths) and must-labels (intersection over paths) per exit
        lab = collections.defaultdict(frozenset)
        must = {start: frozenset()}
        changed = True
        order = list(graph)
        while changed:
            changed = False
            for n in order:
                for ((ls, ms), m) in graph[n]:
                    new = lab[m] | lab[n] | ls
                    if new != lab[m]:
                        lab[m] = new
                        changed = True
                    if n in must:
                        cand = must[n] | ms
                        newm = cand if m not in must else (must[m] & cand)
                        if must.get(m) != newm:
                            must[m] = newm
                            changed = True
        self._cycle_check(f, graph)
        return frozenset((ret, e, (lab[('EXIT', ret, e)], must.get(('EXIT', ret, e), frozenset()))) for (ret, e) in exits)

    def _cycle_check(self, f, graph):
        """spin rule (C14.d): cycles in the subgraph without must-progress edges and outside failed
        states that contain an edge on which a watched `poll_ready` may return Pending."""
        is_progress = getattr(self.A, 'is_progress', None)
        spin_label = getattr(self.A, 'spin_label', None)
        if is_progress is None or spin_label is None:
            return
        failed = getattr(self.A, 'is_failed', lambda a: False)
        sub = collections.defaultdict(set)
        for n, es in graph.items():
            if n[0] == 'EXIT' or failed(n[2][0]):
                continue
            for ((ls, ms), m) in es:
                if m[0] == 'EXIT' or 'PROGRESS' in ms or any(is_progress(x) for x in ms):
                    continue
                sub[n].add((ls, m))
        cand = [(n, ls, m) for n, es in sub.items() for (ls, m) in es if any(spin_label(l) for l in ls)]
        if not cand:
            return

        def reach(src):
            seen, work = set(), [src]
            while work:
                x = work.pop()
                for (_, y) in sub.get(x, ()):
                    if y not in seen:
                        seen.add(y)
                        work.append(y)
            return seen
        for n, ls, m in cand:
            if n == m or n in reach(m):
                self.spin[f.id] = self.spin.get(f.id, 0) + 1
                self.spin_edges.setdefault(f.id, []).append((n[0], n[2][0], sorted(ls), m[0]))

    def _block(self, f, bb, loc, env, level):
        aut, cells_t, facts = env
        E = (frozenset(), frozenset())
        reg = self.region_of(f, bb)
        if reg is not None:
            exits, assigned, n = reg
            self.stats['tracing_blocks_skipped'] += n
            for l in assigned:
                loc.pop(l, None)
            for x in exits:
                yield (E, x, dict(loc), env, None)
            return
        cells = dict(cells_t)
        blk = f.blocks[bb]
        for si, s in enumerate(blk['stmts']):
            rv, pl = s['rv'], s['pl']
            k = rv['k']
            if k == 'use':
                val = self.ev_op(loc, cells, rv['op'])
            elif k == 'ref':
                # a reference to a place behind a cell reference stays a cell reference
                base = loc.get(rv['pl']['l'], STAR)
                if isinstance(base, tuple) and base and base[0] == 'cellref' and all(e[0] == 'd' for e in rv['pl']['p']):
                    val = base
                elif base in (SELFREF, SELFPROJ) and all(e[0] in ('d', 'dc') for e in rv['pl']['p']):
                    val = base
                elif base in (SELFREF, SELFPROJ) and [e for e in rv['pl']['p'] if e[0] == 'f'] and len([e for e in rv['pl']['p'] if e[0] == 'f']) == 1 \
                        and str([e for e in rv['pl']['p'] if e[0] == 'f'][0][2] if len([e for e in rv['pl']['p'] if e[0] == 'f'][0]) > 2 else '') in self.cell_names \
                        and rv['pl']['p'][-1][0] == 'f':
                    val = ('cellref', str([e for e in rv['pl']['p'] if e[0] == 'f'][0][2]))
                elif isinstance(base, tuple) and base and base[0] == 'ref' and rv['pl']['p'] and rv['pl']['p'][0][0] == 'd':
                    r = json.loads(base[1])
                    val = ('ref', json.dumps({'l': r['l'], 'p': r['p'] + rv['pl']['p'][1:]}, sort_keys=True))
                else:
                    val = ('ref', json.dumps(rv['pl'], sort_keys=True))
            elif k == 'discr':
                val = ('discr', self.deref(loc, cells, self.get_place(loc, cells, rv['pl'])))
            elif k == 'agg':
                ops = [self.ev_op(loc, cells, o) for o in rv['ops']]
                adt, var = rv['adt'], rv['variant']
                if adt == 'tuple':
                    val = ('tuple',) + tuple(ops) if any(o != STAR for o in ops) else STAR
                elif adt in ('std::task::Poll', 'std::option::Option', 'std::result::Result', 'std::ops::ControlFlow'):
                    val = (var, ops[0]) if ops else var
                elif adt in self.enums0:
                    val = ('E', adt, int(self.enums0[adt][rv['vidx']][2]))
                elif adt in self.enumsN:
                    val = ('EV', adt, int(self.enumsN[adt][rv['vidx']][2]), ops[0] if ops else STAR)
                else:
                    val = STAR
            elif k == 'un' and rv['op'] == 'Not':
                a = self.ev_op(loc, cells, rv['a'])
                val = (not a) if isinstance(a, bool) else (('not', a) if isinstance(a, tuple) and a and a[0] == 'cmp' else STAR)
            elif k == 'bin' and rv['op'] in CMP_OPS and (f.id, bb, si) in self.cmp_sites:
                val = ('cmp', self.cmp_sites[(f.id, bb, si)])
            else:
                val = STAR
            self.set_place(loc, cells, pl, val)
        cells_t = tuple(sorted(cells.items()))
        env = (aut, cells_t, facts)
        t = blk['term']
        k = t['k']
        if k in ('goto', 'drop', 'assert'):
            if f.blocks[t['t']]['cleanup']:
                return
            yield (E, t['t'], loc, env, None)
            return
        if k in ('unreachable', 'coroutine_drop', 'other', 'resume', 'terminate'):
            return
        if k == 'yield':
            yield (E, None, loc, env, 'YIELD')
            return
        if k == 'return':
            r = loc.get(0, STAR)
            if isinstance(r, tuple) and r and r[0] in ('ref', 'cellref'):
                pass  # returning a reference (accessor)
            yield (E, None, loc, env, r)
            return
        if k == 'switch':
            d = self.ev_op(loc, cells, t['discr'])
            dv = None
            if isinstance(d, tuple) and d and d[0] == 'discr':
                dv = self.discr_of(d[1])
            elif isinstance(d, bool):
                dv = 1 if d else 0
            if dv is not None:
                nxt = [b for (v, b) in t['targets'] if v == dv] or [t['otherwise']]
                yield (E, nxt[0], loc, env, None)
                return
            fact = None
            if isinstance(d, tuple) and d and d[0] in ('cmp', 'not'):
                neg = False
                x = d
                while x[0] == 'not':
                    neg = not neg
                    x = x[1]
                fact = (x[1], neg)
            tg = dict((v, b) for v, b in t['targets'])
            for b in sorted(set([b for (_, b) in t['targets']] + [t['otherwise']])):
                env2 = env
                if fact is not None:
                    # bool switch: value 0 -> false edge
                    truth = None
                    if tg.get(0) == b and t['otherwise'] != b:
                        truth = False
                    elif t['otherwise'] == b and tg.get(0) != b:
                        truth = True
                    elif tg.get(1) == b:
                        truth = True
                    if truth is not None:
                        names, neg = fact
                        val = (not truth) if neg else truth
                        # a contradicting fact already known makes the edge infeasible
                        known = dict(facts)
                        nl = names.split('|')
                        if any(n in known and known[n] != val for n in nl):
                            continue
                        env2 = (aut, cells_t, frozenset(set(facts) | {(n, val) for n in nl}))
                yield (E, b, dict(loc), env2, None)
            return
        if k == 'call':
            if t['target'] is None or f.blocks[t['target']]['cleanup']:
                return
            if not t.get('callee') and not is_tracing(t) and (t.get('func') or {}).get('k') in ('copy', 'move'):
                # a call through a function pointer / function-typed value: which operation runs is not visible here.  If the value could be one of the
                # transport, queue or table operations the automata count, every verdict built on this exploration would be unfounded
                fty = f.local_ty(t['func']['pl']['l']) if not t['func']['pl']['p'] else '?'
                if any(k_ in fty for k_ in ('Pin<', 'Context<', 'Poll<', 'Sink', 'Stream')):
                    raise Budget('call through a function pointer of type %s at %s:%s (the operation performed is not resolved)' % (fty[:80], t.get('file'), t.get('line')))
            callee_f, nlevel = self.resolve(t, level)
            args = [self.ev_op(loc, cells, a) for a in t['args']]
            site = '%s:%s' % (t.get('file'), t.get('line'))
            dargs = tuple(self.deref(loc, cells, a) for a in args)
            cn_ = strip_generics(t.get('callee') or '')
            if dargs and dargs[0] in (SELFREF, SELFPROJ) and self.cell_names:
                keep = None
                if cn_.endswith(('Deref::deref', 'DerefMut::deref_mut', 'Pin::as_mut', 'Pin::as_ref', 'Pin::get_mut', 'Pin::get_ref', 'Pin::into_ref', 'Pin::get_unchecked_mut',
                                 'Pin::new', 'Pin::new_unchecked', 'Pin::map_unchecked_mut', 'Pin::into_inner', 'borrow::BorrowMut::borrow_mut', 'borrow::Borrow::borrow')) and dargs[0] == SELFREF:
                    keep = SELFREF
                elif (cn_.endswith('::project') or cn_.endswith('::project_ref')) and dargs[0] == SELFREF:
                    keep = SELFPROJ
                if keep is not None:
                    l2 = dict(loc)
                    self.set_place(l2, cells, t['dest'], keep)
                    yield (E, t['target'], l2, env, None)
                    return
            if callee_f is not None and callee_f.id in self.cell_accessors:
                l2 = dict(loc)
                self.set_place(l2, cells, t['dest'], ('cellref', self.cell_accessors[callee_f.id]))
                yield (E, t['target'], l2, env, None)
                return
            if callee_f is not None and callee_f.id != f.id and not callee_f.coroutine:
                cargs = tuple(d_ if d_ == SELFREF else (STAR if (isinstance(a, tuple) and a and a[0] == 'ref') else a) for a, d_ in zip(args, dargs))
                self.stats['calls'] += 1
                bev = self.boundary(t, f, callee_f, level, nlevel) if self.boundary else None
                for (ret, env2, labels) in self.summarize(callee_f, cargs, env, nlevel):
                    if ret == 'YIELD':
                        continue
                    if bev is not None:
                        self.cur_facts = env2[2]
                        a2 = self.A.step(env2[0], bev, ret, site, self)
                        lab = '%s.%s=%s' % (bev[0], bev[1], shape_str(ret))
                        f2 = env2[2]
                        killed = set(self.kill_facts(bev, ret))
                        if killed:
                            f2 = frozenset(x for x in f2 if x[0] not in killed)
                        env2 = (a2, env2[1], f2)
                        labels = (labels[0] | {lab}, labels[1] | {lab})
                    l2 = dict(loc)
                    c2 = dict(env2[1])
                    self.set_place(l2, c2, t['dest'], ret)
                    yield (labels, t['target'], l2, env2, None)
                return
            dest_ty = f.local_ty(t['dest']['l']) if not t['dest']['p'] else '?'
            cname0 = strip_generics(t['callee'] or '')
            comb = self.COMBINATORS.get(cname0)
            if comb is not None and len(t['args']) >= 2 and not is_tracing(t):
                body = self.closure_body(f, t['args'][1])
                if body is not None:
                    a0 = dargs[0]
                    if a0 == STAR:
                        # unknown input: fork it over its type first
                        at = (t.get('arg_tys') or ['?'])[0]
                        ins = self.universe(at)
                    else:
                        ins = [a0]
                    for inp in ins:
                        payload, rebuild = comb(inp)
                        if payload is None:
                            outs = [(rebuild(None), env, E)]
                        else:
                            outs = []
                            self.stats['closure_calls'] += 1
                            for (ret, env2, labels) in self.summarize(body, (STAR, payload), env, level):
                                if ret == 'YIELD':
                                    continue
                                outs.append((rebuild(ret), env2, labels))
                        for (shape, env2, labels) in outs:
                            l2 = dict(loc)
                            c2 = dict(env2[1])
                            self.set_place(l2, c2, t['dest'], shape)
                            yield (labels, t['target'], l2, env2, None)
                    return
            ev = self.classify(t, f)
            cname = strip_generics(t['callee'] or '')
            res = None if is_tracing(t) else self.model_call(cname, dargs, dest_ty)
            if res is None:
                if is_tracing(t) or t['dest']['p']:
                    res = [STAR]
                else:
                    res = self.universe(dest_ty)
                    if res != [STAR] and not ev:
                        self.unmodelled[cname] += 1
                        if callee_f is None and (dest_ty.strip() in self.enums0 or dest_ty.split('<')[0].strip() in self.enumsN):
                            # an external function handing back a value of one of the crate's own enums can only have computed it with the closures and
                            # values it was given (a fold, a max_by_key ..): which variant comes out is decided by code this exploration does not
                            # interpret.  Forking over all variants would invent outcomes that cannot happen; no verdict is better than that.
                            raise Budget('%s at %s returns a value of the crate-local enum %s computed by closures the exploration does not interpret' % (cname, site, dest_ty[:60]))
            # locals whose &mut was handed to an unmodelled callee are havocked
            havoc = []
            if ev is None and not is_tracing(t):
                for a, at in zip(args, t.get('arg_tys') or []):
                    if isinstance(a, tuple) and a and a[0] == 'ref' and at.startswith('&mut'):
                        havoc.append(json.loads(a[1]))
            closed_fact = ('closed:' + ev[0], True) if (ev and ev[0] in self.sticky and ev[1] in ('poll_recv', 'poll_next')) else None
            for shape in res:
                if closed_fact is not None and closed_fact in facts and shape != ('Ready', 'None'):
                    continue   # a closed and drained queue / fused stream stays ended (tokio mpsc, futures Fuse)
                l2 = dict(loc)
                c2 = dict(cells)
                for h in havoc:
                    if not h['p']:
                        l2.pop(h['l'], None)
                self.set_place(l2, c2, t['dest'], shape)
                a2, labels, f2 = aut, E, facts
                if ev:
                    self.cur_facts = facts
                    a2 = self.A.step(aut, ev, shape, site, self)
                    lab = '%s.%s=%s' % (ev[0], ev[1], shape_str(shape))
                    _l = frozenset([lab])
                    ip = getattr(self.A, 'is_progress', None)
                    labels = (_l, frozenset([lab, 'PROGRESS']) if (ip and ip(lab)) else _l)
                    killed = set(self.kill_facts(ev, shape))
                    if killed:
                        f2 = frozenset(x for x in facts if x[0] not in killed)
                    if closed_fact is not None and shape == ('Ready', 'None'):
                        f2 = frozenset(set(f2) | {closed_fact})
                yield (labels, t['target'], l2, (a2, tuple(sorted(c2.items())), f2), None)
            return
        raise Exception('unhandled terminator ' + k)

    # ------------------------------------------------------------------ reporting helpers
    def violation(self, key, site):
        self.viol[key] += 1
        self.viol_sites.setdefault(key, set()).add(site)


def shape_str(shape):
    if isinstance(shape, str):
        return shape
    if shape is True or shape is False:
        return str(shape)
    if isinstance(shape, tuple) and shape and shape[0] == 'Ready':
        return 'Ready(' + shape_str(shape[1]) + ')'
    if isinstance(shape, tuple) and shape and shape[0] in ('Some', 'Ok', 'Err', 'Continue', 'Break'):
        return shape[0] + ('(' + shape_str(shape[1]) + ')' if len(shape) > 1 and shape[1] != STAR else '')
    return repr(shape)


def top(shape):
    """outermost constructor name of a shape"""
    if isinstance(shape, str):
        return shape
    if isinstance(shape, tuple) and shape:
        return shape[0]
    return STAR


def is_ready_ok(shape):
    return shape == ('Ready', ('Ok', STAR)) or (isinstance(shape, tuple) and shape[0] == 'Ready' and isinstance(shape[1], tuple) and shape[1][0] == 'Ok')


def is_ready_none(shape):
    return shape == ('Ready', 'None')


def poll_outcome(shape):
    """Pending | Closed (Ready(None)) | Progress (Ready(Some..)) | Err"""
    if shape == 'Pending':
        return 'Pending'
    if shape == ('Ready', 'None'):
        return 'Closed'
    if isinstance(shape, tuple) and shape[0] == 'Ready':
        s = shape[1]
        if isinstance(s, tuple) and s[0] == 'Some':
            q = s[1]
            if isinstance(q, tuple) and q[0] == 'Err':
                return 'Err'
            return 'Progress'
        if isinstance(s, tuple) and s[0] == 'Err':
            return 'Err'
        if isinstance(s, tuple) and s[0] == 'Ok':
            return 'Progress'
        return 'Progress'
    return 'Progress'
