"""E-TAB: extract hand-written finite mappings (match arms with constant results) from MIR."""
from .prov import const_int


def _follow(f, bb, limit=8):
    """follow empty goto blocks"""
    n = 0
    while n < limit:
        b = f.blocks[bb]
        if b['stmts'] or b['term']['k'] != 'goto':
            return bb
        bb = b['term']['t']
        n += 1
    return bb


def arm_value(f, bb):
    """constant produced by a match arm starting at bb: ('int', n) | ('variant', adt, name) | None"""
    bb = _follow(f, bb)
    b = f.blocks[bb]
    for s in b['stmts']:
        rv = s['rv']
        if rv['k'] == 'use' and rv['op']['k'] == 'const':
            from .prov import const_int as ci
            v = ci(('const', rv['op']['ty'], rv['op']['v'], None))
            if v is not None:
                return ('int', v, rv['op']['ty'], s['pl']['l'])
        if rv['k'] == 'agg' and not rv['ops'] and rv['variant']:
            return ('variant', rv['adt'], rv['variant'], s['pl']['l'])
    return None


def switch_table(f, bb):
    """(mapping value->arm constant, otherwise arm constant) of the switchInt terminating bb"""
    t = f.blocks[bb]['term']
    assert t['k'] == 'switch'
    m = {}
    for v, x in t['targets']:
        m[v] = arm_value(f, x)
    return m, arm_value(f, t['otherwise'])


def find_switches(f, min_arms=4):
    return [i for i, b in enumerate(f.blocks) if not b['cleanup'] and b['term']['k'] == 'switch' and len(b['term']['targets']) >= min_arms]
