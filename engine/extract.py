"""Fact extraction: runs the mirfacts driver over /repo's current working tree (never HEAD, never a
snapshot) and caches the result keyed by a hash of the tree.  Nothing of tarpc is executed; the only
code that runs is rustc (with build scripts / proc-macros, as in any build)."""
import fcntl
import hashlib
import json
import os
import shutil
import subprocess
import sys
import time

VERIF = os.path.dirname(os.path.dirname(os.path.abspath(__file__)))
REPO = os.environ.get('VERIF_REPO', '/repo')
CACHE = os.environ.get('VERIF_CACHE', os.path.join(VERIF, '.cache'))
DRIVER_DIR = os.path.join(VERIF, 'tools', 'mirfacts')
DRIVER = os.path.join(DRIVER_DIR, 'target', 'release', 'mirfacts')

# feature configurations of the tarpc crate that are analysed
CONFIGS = {
    'full': ['--features', 'full'],
    'default': [],
    'serde1': ['--features', 'serde1'],
    'tokio1': ['--features', 'tokio1'],
    'serde-transport': ['--features', 'serde-transport,tcp'],
}
# vacuity floors per config (bodies extracted for the tarpc crate); counted on the pinned tree
BODY_FLOOR = {'full': 600, 'default': 425, 'serde1': 525, 'tokio1': 430, 'serde-transport': 570}


class ExtractError(Exception):
    pass


def repo_tag(repo):
    """cache namespace of a source tree: the real /repo, or one per scratch copy (never shared: two trees must not share
    a cargo target dir or a fact directory)"""
    a = os.path.abspath(repo)
    return 'repo' if a == '/repo' else 'scratch-' + hashlib.sha256(a.encode()).hexdigest()[:10]


def nightly_sysroot():
    return subprocess.check_output(['rustc', '+nightly', '--print', 'sysroot'], text=True).strip()


def tree_hash(repo=REPO):
    h = hashlib.sha256()
    paths = []
    for root, dirs, files in os.walk(repo):
        dirs[:] = sorted(d for d in dirs if d not in ('target', '.git', 'node_modules'))
        for f in sorted(files):
            if f.endswith('.rs') or f in ('Cargo.toml', 'Cargo.lock', 'build.rs'):
                paths.append(os.path.join(root, f))
    for p in paths:
        h.update(os.path.relpath(p, repo).encode())
        h.update(b'\0')
        with open(p, 'rb') as fh:
            h.update(fh.read())
        h.update(b'\0')
    # the driver is part of the key: a rebuilt extractor invalidates old facts
    try:
        with open(os.path.join(DRIVER_DIR, 'src', 'main.rs'), 'rb') as fh:
            h.update(fh.read())
    except OSError:
        pass
    return h.hexdigest()[:24]


def ensure_driver():
    src = os.path.join(DRIVER_DIR, 'src', 'main.rs')
    if os.path.exists(DRIVER) and os.path.getmtime(DRIVER) >= os.path.getmtime(src):
        return
    env = dict(os.environ, CARGO_NET_OFFLINE='true')
    r = subprocess.run(['cargo', 'build', '--release', '--offline'], cwd=DRIVER_DIR, env=env,
                       stdout=subprocess.PIPE, stderr=subprocess.STDOUT, text=True)
    if r.returncode != 0 or not os.path.exists(DRIVER):
        raise ExtractError('cannot build mirfacts driver:\n' + r.stdout[-3000:])


def _rm_member_fingerprints(target_dir):
    fp = os.path.join(target_dir, 'debug', '.fingerprint')
    if os.path.isdir(fp):
        for d in os.listdir(fp):
            if d.startswith('tarpc-') or d.startswith('tarpc_plugins-') or d.startswith('tarpc-plugins-'):
                shutil.rmtree(os.path.join(fp, d), ignore_errors=True)


def facts_path(config='full', repo=REPO, want_hash=None):
    """Returns the path of an up-to-date fact file for `tarpc` under `config`, extracting if needed."""
    ensure_driver()
    tag = repo_tag(repo)
    out_dir = os.path.join(CACHE, 'facts', tag, config)
    os.makedirs(out_dir, exist_ok=True)
    lock = open(os.path.join(CACHE, 'facts', '.lock-%s-%s' % (tag, config)), 'w')
    fcntl.flock(lock, fcntl.LOCK_EX)
    try:
        h = want_hash or tree_hash(repo)
        stamp = os.path.join(out_dir, 'hash')
        fact = os.path.join(out_dir, 'tarpc.json')
        if os.path.exists(stamp) and os.path.exists(fact) and open(stamp).read().strip() == h:
            return fact
        for f in ('tarpc.json', 'tarpc_plugins.json', 'hash'):
            try:
                os.remove(os.path.join(out_dir, f))
            except OSError:
                pass
        target_dir = os.path.join(CACHE, 'target-%s-%s' % (tag, config))
        _rm_member_fingerprints(target_dir)
        env = dict(os.environ)
        env.update({
            'LD_LIBRARY_PATH': nightly_sysroot() + '/lib:' + env.get('LD_LIBRARY_PATH', ''),
            'RUSTFLAGS': '-Zmir-opt-level=0 -Awarnings',
            'RUSTC_WORKSPACE_WRAPPER': DRIVER,
            'MIRFACTS_CRATES': 'tarpc,tarpc_plugins',
            'MIRFACTS_OUT': out_dir,
            'MIRFACTS_CONFIG': config,
            'CARGO_TARGET_DIR': target_dir,
            'CARGO_NET_OFFLINE': 'true',
        })
        env.pop('RUSTC_WRAPPER', None)
        t0 = time.time()
        cmd = ['cargo', '+nightly', 'check', '--offline', '-p', 'tarpc', '--lib'] + CONFIGS[config]
        r = subprocess.run(cmd, cwd=repo, env=env, stdout=subprocess.PIPE, stderr=subprocess.STDOUT, text=True)
        if r.returncode != 0:
            raise ExtractError('the tree does not build under config %s (cargo exit %d):\n%s' % (config, r.returncode, r.stdout[-4000:]))
        if not os.path.exists(fact) or os.path.getmtime(fact) < t0 - 1:
            raise ExtractError('driver did not (re)write %s — cargo skipped the wrapper?\n%s' % (fact, r.stdout[-2000:]))
        with open(stamp, 'w') as fh:
            fh.write(h)
        return fact
    finally:
        fcntl.flock(lock, fcntl.LOCK_UN)
        lock.close()


def plugins_facts_path(config='full', repo=REPO):
    p = facts_path(config, repo)
    q = os.path.join(os.path.dirname(p), 'tarpc_plugins.json')
    if not os.path.exists(q):
        raise ExtractError('no facts for tarpc_plugins')
    return q


if __name__ == '__main__':
    cfgs = sys.argv[1:] or ['full']
    for c in cfgs:
        t0 = time.time()
        p = facts_path(c)
        d = json.load(open(p))
        print('%s: %s  %s  %.1fs' % (c, p, d['stats'], time.time() - t0))


def harness_facts(name, lib_rs, repo=REPO, features=('serde1',), extra_dev=None):
    """Compiles a generated harness crate `name` (path-depending on repo/tarpc) under the driver and returns the
    path of its fact file.  Cached by (tree hash, source text)."""
    ensure_driver()
    tag = repo_tag(repo)
    base = os.path.join(CACHE, 'harness', tag, name)
    os.makedirs(os.path.join(base, 'src'), exist_ok=True)
    lock = open(os.path.join(CACHE, 'harness', '.lock-%s-%s' % (tag, name)), 'w')
    fcntl.flock(lock, fcntl.LOCK_EX)
    try:
        h = hashlib.sha256((tree_hash(repo) + '\0' + lib_rs + '\0' + ','.join(features)).encode()).hexdigest()[:24]
        out_dir = os.path.join(base, 'facts')
        stamp = os.path.join(base, 'hash')
        fact = os.path.join(out_dir, name + '.json')
        if os.path.exists(stamp) and os.path.exists(fact) and open(stamp).read().strip() == h:
            return fact
        for p in (fact, stamp):
            try:
                os.remove(p)
            except OSError:
                pass
        with open(os.path.join(base, 'Cargo.toml'), 'w') as fh:
            fh.write('[package]\nname = "%s"\nversion = "0.0.0"\nedition = "2021"\n\n[workspace]\n\n[dependencies]\ntarpc = { path = "%s/tarpc", features = [%s] }\n'
                     % (name, os.path.abspath(repo), ', '.join('"%s"' % f for f in features)))
        shutil.copy(os.path.join(repo, 'Cargo.lock'), os.path.join(base, 'Cargo.lock'))
        with open(os.path.join(base, 'src', 'lib.rs'), 'w') as fh:
            fh.write(lib_rs)
        target_dir = os.path.join(base, 'target')
        fp = os.path.join(target_dir, 'debug', '.fingerprint')
        if os.path.isdir(fp):
            for d in os.listdir(fp):
                if d.startswith(name + '-') or d.startswith('tarpc-') or d.startswith('tarpc-plugins-') or d.startswith('tarpc_plugins-'):
                    shutil.rmtree(os.path.join(fp, d), ignore_errors=True)
        env = dict(os.environ)
        env.update({
            'LD_LIBRARY_PATH': nightly_sysroot() + '/lib:' + env.get('LD_LIBRARY_PATH', ''),
            'RUSTFLAGS': '-Zmir-opt-level=0 -Awarnings',
            'RUSTC_WORKSPACE_WRAPPER': DRIVER,
            'MIRFACTS_CRATES': name,
            'MIRFACTS_OUT': out_dir,
            'MIRFACTS_CONFIG': 'harness',
            'CARGO_TARGET_DIR': target_dir,
            'CARGO_NET_OFFLINE': 'true',
        })
        env.pop('RUSTC_WRAPPER', None)
        t0 = time.time()
        r = subprocess.run(['cargo', '+nightly', 'check', '--offline', '--lib'], cwd=base, env=env, stdout=subprocess.PIPE, stderr=subprocess.STDOUT, text=True)
        if r.returncode != 0:
            raise ExtractError('harness crate %s does not build against the tree (cargo exit %d):\n%s' % (name, r.returncode, r.stdout[-4000:]))
        if not os.path.exists(fact) or os.path.getmtime(fact) < t0 - 1:
            raise ExtractError('driver did not write facts for harness crate %s' % name)
        with open(stamp, 'w') as fh:
            fh.write(h)
        return fact
    finally:
        fcntl.flock(lock, fcntl.LOCK_UN)
        lock.close()
