"""Fact base loader and the E-Q query helpers (who-may-call / who-may-construct / impl tables)."""
import json
import re


class CannotDecide(Exception):
    """A rule could not bind one of its anchors (entry point, resource).  Fails closed: exit 2."""


def strip_generics(p):
    """`a::B::<T>::c` -> `a::B::c`;  `<impl a::B<T>>::c` -> `a::B::c` (best effort, for matching)."""
    out, depth, i = [], 0, 0
    while i < len(p):
        if p.startswith('::<', i) and depth == 0:
            # skip balanced <...>
            j, d = i + 2, 0
            while j < len(p):
                if p[j] == '<':
                    d += 1
                elif p[j] == '>' and p[j - 1] != '-':
                    d -= 1
                    if d == 0:
                        break
                j += 1
            i = j + 1
            continue
        out.append(p[i])
        i += 1
    return ''.join(out)


def split_top(inner):
    args, depth, cur = [], 0, ''
    prev = ''
    for ch in inner:
        if ch in '<([':
            depth += 1
        elif ch in ')]' or (ch == '>' and prev != '-'):
            depth -= 1
        if ch == ',' and depth == 0:
            args.append(cur.strip())
            cur = ''
        else:
            cur += ch
        prev = ch
    if cur.strip():
        args.append(cur.strip())
    return args


def ty_head(t):
    """`std::task::Poll<X>` -> (`std::task::Poll`, [X])"""
    t = t.strip()
    i = t.find('<')
    if i > 0 and t.endswith('>') and not t.startswith('<') and not t.startswith('&') and not t.startswith('('):
        return t[:i], split_top(t[i + 1:-1])
    return t, []


def strip_refs(t):
    t = t.strip()
    while True:
        m = re.match(r"^&(?:'\w+ )?(?:mut )?(.*)$", t)
        if m:
            t = m.group(1).strip()
            continue
        h, a = ty_head(t)
        if h in ('std::pin::Pin', 'std::boxed::Box', 'std::sync::Arc') and a:
            t = a[0]
            continue
        return t


class Fn:
    __slots__ = ('d', 'id', 'path', 'npath', 'kind', 'parent', 'impl_of', 'blocks', 'locals', 'argc', 'file', 'line',
                 'vis', 'coroutine', '_succ', '_pred', 'expn')

    def __init__(self, d):
        self.d = d
        self.id = d['id']
        self.path = d['path']
        self.npath = strip_generics(d['path'])
        self.kind = d['kind']
        self.parent = d['parent']
        self.impl_of = d['impl_of']
        self.blocks = d['blocks']
        self.locals = d['locals']
        self.argc = d['argc']
        self.file = d['file']
        self.line = d['line']
        self.vis = d['vis']
        self.coroutine = d['coroutine']
        self.expn = d.get('expn', [])
        self._succ = None
        self._pred = None

    def __repr__(self):
        return '<Fn %s>' % self.id

    def succ(self, bb, cleanup=False):
        if self._succ is None:
            self._succ = [block_succ(b) for b in self.blocks]
        s = self._succ[bb]
        if cleanup:
            return s
        return [x for x in s if not self.blocks[x]['cleanup']]

    def preds(self):
        if self._pred is None:
            p = [[] for _ in self.blocks]
            for i in range(len(self.blocks)):
                if self.blocks[i]['cleanup']:
                    continue
                for s in self.succ(i):
                    p[s].append(i)
            self._pred = p
        return self._pred

    def local_ty(self, l):
        return self.locals[l]['ty']

    def local_name(self, l):
        return self.locals[l]['name']

    def calls(self):
        for i, b in enumerate(self.blocks):
            if b['cleanup']:
                continue
            t = b['term']
            if t['k'] == 'call':
                yield i, t

    def stmts(self):
        for i, b in enumerate(self.blocks):
            if b['cleanup']:
                continue
            for j, s in enumerate(b['stmts']):
                yield i, j, s

    def aggregates(self, adt_suffix=None, variant=None):
        for i, j, s in self.stmts():
            rv = s['rv']
            if rv['k'] == 'agg':
                if adt_suffix is not None and not path_matches(rv['adt'], adt_suffix):
                    continue
                if variant is not None and rv['variant'] != variant:
                    continue
                yield i, j, s

    def loc(self, x):
        """file:line of a stmt/term dict"""
        if 'file' in x:
            return '%s:%s' % (x['file'], x['line'])
        return '%s:%s' % (self.file, self.line)


def block_succ(b):
    t = b['term']
    k = t['k']
    if k == 'call':
        return [t['target']] if t['target'] is not None else []
    if k == 'switch':
        out = []
        for (_, x) in t['targets']:
            if x not in out:
                out.append(x)
        if t['otherwise'] not in out:
            out.append(t['otherwise'])
        return out
    if k in ('goto', 'drop', 'assert'):
        return [t['t']]
    if k == 'yield':
        return [t['t']]
    return []


def path_matches(path, suffix):
    """module-path suffix match on generic-stripped paths: `tarpc::client::Channel` ~ `client::Channel`."""
    p = strip_generics(path)
    return p == suffix or p.endswith('::' + suffix)


def callee_is(t, *names):
    """t: call terminator.  names: generic-stripped callee paths (suffix match)."""
    c = t.get('callee')
    if not c:
        return False
    c = strip_generics(c)
    for n in names:
        if c == n or c.endswith('::' + n):
            return True
    return False


def is_tracing(x):
    return any(e.startswith('tracing::') or e.startswith('tracing_core::') or '::tracing::' in e for e in x.get('expn', ()))


def expn_has(x, *frag):
    return any(any(f in e for f in frag) for e in x.get('expn', ()))


class Facts:
    def __init__(self, path):
        with open(path) as fh:
            d = json.load(fh)
        self.path = path
        self.crate = d['crate']
        self.config = d['config']
        self.stats = d['stats']
        self.enums = d['enums']
        self.adts = {a['path']: a for a in d['adts']}
        self.impls = d['impls']
        self.fns = {}
        self.by_npath = {}
        self.children = {}
        for fd in d['fns']:
            f = Fn(fd)
            self.fns[f.id] = f
            self.by_npath.setdefault(f.npath, []).append(f)
            if f.parent:
                self.children.setdefault(f.parent, []).append(f)
        self._impl_index = {}
        for im in self.impls:
            for (name, mid) in im['methods']:
                self._impl_index.setdefault((strip_generics(im['trait']), name), []).append((im, mid))

    # ------------------------------------------------------------------ lookup (bind or fail closed)
    def fn(self, fid):
        return self.fns.get(fid)

    def inherent(self, type_suffix, method):
        """inherent method by generic-stripped path suffix; fails closed if absent or ambiguous."""
        cands = [f for f in self.fns.values() if f.kind in ('AssocFn', 'Fn') and f.impl_of and f.impl_of.get('trait') is None
                 and f.impl_of.get('self_head') and path_matches(f.impl_of['self_head'], type_suffix) and f.npath.endswith('::' + method)]
        if len(cands) != 1:
            raise CannotDecide('inherent method %s::%s: %d candidates' % (type_suffix, method, len(cands)))
        return cands[0]

    def inherent_opt(self, type_suffix, method):
        try:
            return self.inherent(type_suffix, method)
        except CannotDecide:
            return None

    def free_fn(self, suffix):
        cands = [f for f in self.fns.values() if f.kind == 'Fn' and path_matches(f.path, suffix)]
        if len(cands) != 1:
            raise CannotDecide('free fn %s: %d candidates' % (suffix, len(cands)))
        return cands[0]

    def trait_impls(self, trait_suffix, self_suffix=None):
        out = []
        for im in self.impls:
            if not path_matches(im['trait'], trait_suffix):
                continue
            if self_suffix is not None:
                if not (im['self_head'] and path_matches(im['self_head'], self_suffix)):
                    continue
            out.append(im)
        return out

    def trait_method(self, trait_suffix, self_suffix, method, which=None):
        """impl method body of `<self as trait>::method`; fails closed if absent/ambiguous."""
        cands = []
        for im in self.trait_impls(trait_suffix, self_suffix):
            if which is not None and not which(im):
                continue
            for (name, mid) in im['methods']:
                if name == method and mid in self.fns:
                    cands.append(self.fns[mid])
        if len(cands) != 1:
            raise CannotDecide('<%s as %s>::%s: %d candidates' % (self_suffix, trait_suffix, method, len(cands)))
        return cands[0]

    def has_impl(self, trait_suffix, self_suffix):
        return bool(self.trait_impls(trait_suffix, self_suffix))

    def descendants(self, f):
        """closures / coroutines nested (transitively) in f."""
        out, work = [], [f.id]
        while work:
            x = work.pop()
            for c in self.children.get(x, ()):
                if c.kind == 'Closure':
                    out.append(c)
                    work.append(c.id)
        return out

    def with_descendants(self, f):
        return [f] + self.descendants(f)

    def enclosing_item(self, f):
        """closest Fn/AssocFn ancestor of a closure body"""
        while f is not None and f.kind == 'Closure':
            f = self.fns.get(f.parent)
        return f

    def is_derived(self, f):
        """body generated by a derive (identified by the impl header's expansion, not by name)."""
        g = self.enclosing_item(f)
        if g is None:
            # closure inside something that is not a fn body we know (e.g. const item)
            return False
        if g.impl_of and g.impl_of.get('impl_id'):
            for im in self.impls:
                if im['impl_id'] == g.impl_of['impl_id']:
                    return im['from_expansion']
        return False

    def adt(self, suffix):
        c = [a for p, a in self.adts.items() if path_matches(p, suffix)]
        if len(c) != 1:
            raise CannotDecide('ADT %s: %d candidates' % (suffix, len(c)))
        return c[0]

    def field_of_type(self, adt_suffix, pred, variant=0):
        """unique field of the ADT whose type satisfies pred (identification by type and role)."""
        a = self.adt(adt_suffix)
        c = [f for f in a['variants'][variant]['fields'] if pred(f[1])]
        if len(c) != 1:
            raise CannotDecide('field of %s by type: %d candidates' % (adt_suffix, len(c)))
        return c[0][0]

    # ------------------------------------------------------------------ E-Q
    def all_calls(self, *names, fns=None):
        """(fn, bb, term) for every non-cleanup call to one of the named callees in the crate."""
        for f in (fns if fns is not None else self.fns.values()):
            for bb, t in f.calls():
                if not names or callee_is(t, *names):
                    yield f, bb, t

    def all_aggregates(self, adt_suffix, variant=None, skip_derived=True):
        for f in self.fns.values():
            if skip_derived and self.is_derived(f):
                continue
            for i, j, s in f.aggregates(adt_suffix, variant):
                yield f, i, j, s

    def callee_fn(self, t):
        """resolved local body of a call terminator, if any"""
        for k in ('resolved_id', 'callee_id'):
            i = t.get(k)
            if i and i in self.fns:
                return self.fns[i]
        return None
