"""Obligation bookkeeping, known-findings handling, evidence and violation files."""
import json
import os
import time

VERIF = os.path.dirname(os.path.dirname(os.path.abspath(__file__)))


class Run:
    def __init__(self, prop, tier, seed, level='other'):
        self.prop = prop
        self.tier = tier
        self.seed = seed
        self.level = level
        self.t0 = time.time()
        self.obls = []          # dicts
        self.info = {}          # extra coverage keys
        self.assumptions = []
        self.explanation = ''
        self.rule_text = ''
        self.notes = []
        self.counters = {}

    # ------------------------------------------------------------------ recording
    def ob(self, rule, key, ok, what, sites=(), detail=None, trivial=False):
        """One decided obligation.  key: tuple of strings without line numbers (rule id first)."""
        key = tuple(str(k) for k in ((rule,) + tuple(key)))
        self.obls.append({'rule': rule, 'key': list(key), 'ok': bool(ok), 'what': what,
                          'sites': list(sites), 'detail': detail, 'trivial': trivial})
        return ok

    def count(self, name, n=1):
        self.counters[name] = self.counters.get(name, 0) + n

    def note(self, s):
        self.notes.append(s)

    # ------------------------------------------------------------------ finishing
    def finish(self):
        known = load_known()
        viol = []
        kf_lines = []
        for o in self.obls:
            if o['ok']:
                continue
            k = o['key']
            hit = None
            for e in known:
                if e.get('status') == 'known' and e.get('property') == self.prop and list(e.get('key', [])) == k:
                    hit = e
                    break
            if hit is not None:
                o['known_finding'] = hit.get('id')
                kf_lines.append('KNOWN-FINDING: property=%s %s [%s] key=%s' % (self.prop, hit.get('what', o['what']), hit.get('id'), '|'.join(k)))
            else:
                viol.append(o)
        ev_dir = os.environ.get('VERIF_EVIDENCE') or os.path.join(VERIF, 'evidence')
        vdir = os.path.join(ev_dir, 'violations')
        os.makedirs(vdir, exist_ok=True)
        # stale violation files of this property are removed
        for fn in os.listdir(vdir):
            if fn.startswith(self.prop + '-'):
                os.remove(os.path.join(vdir, fn))
        out_lines = []
        for n, o in enumerate(viol):
            p = os.path.join(vdir, '%s-%d.json' % (self.prop, n))
            with open(p, 'w') as fh:
                json.dump(o, fh, indent=1)
            out_lines.append('VIOLATION property=%s replay=%s' % (self.prop, p))
            out_lines.append('  rule %s: %s' % (o['rule'], o['what']))
            for s in o['sites'][:8]:
                out_lines.append('    at %s' % (s,))
            if o.get('detail'):
                out_lines.append('    %s' % (str(o['detail'])[:600],))
        seen = set()
        for l in kf_lines:
            if l not in seen:
                seen.add(l)
                out_lines.append(l)
        total = len(self.obls)
        ok = sum(1 for o in self.obls if o['ok'])
        distinct = len({tuple(o['key']) for o in self.obls if not o['trivial']})
        samples = []
        seen_rules = set()
        for o in self.obls:
            if o['rule'] in seen_rules and len(samples) > 40:
                continue
            seen_rules.add(o['rule'])
            samples.append({'rule': o['rule'], 'key': o['key'][1:], 'holds': o['ok'], 'what': o['what'], 'sites': o['sites'][:4]})
            if len(samples) >= 60:
                break
        cov = {
            'explanation': self.explanation,
            'rule': self.rule_text,
            'obligations': total,
            'discharged': ok,
            'evaluations': total,
            'distinct_nontrivial': distinct,
            'samples': samples,
            'exhaustive': True,
            'known_findings_reported': sorted({o['known_finding'] for o in self.obls if o.get('known_finding')}),
        }
        cov.update(self.counters)
        cov.update(self.info)
        ev = {
            'property_id': self.prop,
            'tier': self.tier,
            'seed': self.seed,
            'level': self.level,
            'coverage': cov,
            'assumptions': self.assumptions,
            'wall_s': round(time.time() - self.t0, 2),
            'violations': len(viol),
        }
        if self.notes:
            ev['notes'] = self.notes
        with open(os.path.join(ev_dir, self.prop + '.json'), 'w') as fh:
            json.dump(ev, fh, indent=1)
        return (1 if viol else 0), out_lines, ev


def load_known():
    p = os.path.join(VERIF, 'known_findings.json')
    try:
        with open(p) as fh:
            return json.load(fh).get('findings', [])
    except OSError:
        return []
