"""E-PROV: provenance of values as term trees over the MIR fact base.

A term says where a value comes from, flow-insensitively inside one body (MIR temporaries are
single-assignment almost everywhere; a local with several definitions becomes a `phi`):

  ('param', fn_id, n)            n-th argument of a body (1-based; closures: 1 = environment)
  ('const', ty, text, fn_path)   constant operand (fn_path set for fn items)
  ('call', fn_id, bb)            result of the call terminating block bb of fn_id
  ('agg', fn_id, bb, si)         aggregate built by statement si of block bb
  ('field', base, name)          field projection (name, or index for tuples / enum payloads)
  ('variant', base, vname)       enum downcast
  ('deref', base) ('ref', base)
  ('discr', base) ('bin', op, a, b) ('un', op, a) ('cast', a, ty)
  ('phi', (t, ...))              several reaching definitions
  ('unknown', why)

`Prov.root(term)` peels projections and *transparent* calls (conversions, unwraps, `?`, pin
projections, accessor helpers defined in the crate, awaits) and returns (root term, path).
"""
from .facts import strip_generics, callee_is

# callees through which the identity of a value is preserved (receiver / first argument)
TRANSPARENT = {
    'std::ops::Try::branch': 'try',
    'std::ops::FromResidual::from_residual': 'residual',
    'std::option::Option::unwrap': 'unwrap', 'std::option::Option::expect': 'unwrap',
    'std::result::Result::unwrap': 'unwrap', 'std::result::Result::expect': 'unwrap',
    'std::option::Option::unwrap_or_else': 'unwrap', 'std::result::Result::unwrap_or_else': 'unwrap',
    'std::option::Option::unwrap_or_default': 'unwrap', 'std::result::Result::unwrap_or_default': 'unwrap',
    'std::option::Option::unwrap_or': 'unwrap', 'std::result::Result::unwrap_or': 'unwrap',
    'std::convert::From::from': 'conv', 'std::convert::Into::into': 'conv',
    'std::convert::TryFrom::try_from': 'conv', 'std::convert::TryInto::try_into': 'conv',
    'std::clone::Clone::clone': 'clone',
    'std::ops::Deref::deref': 'deref', 'std::ops::DerefMut::deref_mut': 'deref',
    'std::pin::Pin::as_mut': 'pin', 'std::pin::Pin::get_mut': 'pin', 'std::pin::Pin::new': 'pin',
    'std::pin::Pin::new_unchecked': 'pin', 'std::pin::Pin::get_unchecked_mut': 'pin', 'std::pin::Pin::into_ref': 'pin',
    'std::pin::Pin::as_ref': 'pin', 'std::pin::Pin::get_ref': 'pin', 'std::pin::Pin::set': 'pin',
    'std::option::Option::as_ref': 'asref', 'std::option::Option::as_mut': 'asref',
    'std::option::Option::cloned': 'clone', 'std::option::Option::copied': 'clone',
    'std::convert::AsRef::as_ref': 'asref', 'std::convert::AsMut::as_mut': 'asref',
    'std::borrow::Borrow::borrow': 'asref', 'std::borrow::BorrowMut::borrow_mut': 'asref',
    'std::future::IntoFuture::into_future': 'into_future',
    'std::future::Future::poll': 'await', 'futures::Future::poll': 'await',
    'std::iter::IntoIterator::into_iter': 'into_iter',
    'std::sync::Arc::new': 'box', 'std::boxed::Box::new': 'box',
    'std::task::Poll::map_err': 'map_err', 'std::result::Result::map_err': 'map_err',
    'std::option::Option::take': 'take',
    'std::mem::take': 'take',
    'hash_map::OccupiedEntry::get': 'get', 'hash_map::OccupiedEntry::get_mut': 'get', 'hash_map::OccupiedEntry::into_mut': 'get',
    'Instrument::instrument': 'wrap', 'Instrument::in_current_span': 'wrap',
    'delay_queue::Expired::into_inner': 'inner', 'delay_queue::Expired::get_ref': 'inner', 'delay_queue::Expired::get_mut': 'inner',
}


def tkind(t):
    return t[0]


# callee suffix -> (steps under which the closure's return value sits in the result, variant step that passes through from the receiver)
MAPPING = {
    # suffix: (steps under which the closure's return value sits in the result, steps selecting the closure's argument from the receiver, pass-through variant)
    'Option::map': ((('v', 'Some'), ('f', 0)), (('v', 'Some'), ('f', 0)), None),
    'Result::map': ((('v', 'Ok'), ('f', 0)), (('v', 'Ok'), ('f', 0)), ('v', 'Err')),
    'Poll::map': ((('v', 'Ready'), ('f', 0)), (('v', 'Ready'), ('f', 0)), None),
    'Option::and_then': ((), (('v', 'Some'), ('f', 0)), None),
    'Result::and_then': ((), (('v', 'Ok'), ('f', 0)), ('v', 'Err')),
    'Result::or_else': ((), (('v', 'Err'), ('f', 0)), ('v', 'Ok')),
}


def const_int(t):
    """integer value of a ('const', ty, text, fn) term, else None"""
    import re
    if t[0] != 'const':
        return None
    m = re.match(r'^(?:const )?(-?\d+)(?:_[iu](?:8|16|32|64|128|size))?$', t[2].strip())
    if m:
        return int(m.group(1))
    if len(t) > 4 and t[4]:
        # a named constant of integer type, evaluated by rustc: `Scalar(0x00000010)`
        m = re.match(r'^Scalar\(0x([0-9a-fA-F]+)\)$', str(t[4]).strip())
        if m and re.match(r'^[iu](8|16|32|64|128|size)$', str(t[1])):
            v = int(m.group(1), 16)
            if str(t[1]).startswith('i'):
                bits = 4 * len(m.group(1))
                if v >= 1 << (bits - 1):
                    v -= 1 << bits
            return v
    return None


class Prov:
    def __init__(self, facts, inline_depth=6):
        self.F = facts
        self.memo = {}
        self.inprog = set()
        self.inline_depth = inline_depth
        self._defs = {}
        self._closure_sites = None
        self.through_params = False
        self.callers = None
        self.default_tp = 'closures'   # closure parameters are always followed into the payload of the std combinator the closure is passed to
        self.default_callers = None
        self.stop_tags = set()
        self.inline = True

    # ------------------------------------------------------------------ definitions index
    def defs(self, f):
        """local -> list of ('stmt', bb, si) / ('call', bb) definitions (whole-local or partial)."""
        d = self._defs.get(f.id)
        if d is None:
            d = {}
            for i, b in enumerate(f.blocks):
                if b['cleanup']:
                    continue
                for j, s in enumerate(b['stmts']):
                    d.setdefault(s['pl']['l'], []).append(('stmt', i, j, s['pl']['p']))
                t = b['term']
                if t['k'] == 'call':
                    d.setdefault(t['dest']['l'], []).append(('call', i, None, t['dest']['p']))
                elif t['k'] == 'yield':
                    pass
            self._defs[f.id] = d
        return d

    def _mut_ref_target(self, f, l, depth=4):
        """(local, projection) a temporary holds a `&mut` to (through reborrows), or None"""
        ds = self.defs(f).get(l, [])
        if len(ds) != 1 or ds[0][0] != 'stmt' or ds[0][3] or 1 <= l <= f.argc:
            return None
        rv = f.blocks[ds[0][1]]['stmts'][ds[0][2]]['rv']
        if rv['k'] == 'use' and rv['op']['k'] == 'move' and not rv['op']['pl']['p'] and depth > 0:
            return self._mut_ref_target(f, rv['op']['pl']['l'], depth - 1)
        if rv['k'] != 'ref' or not rv.get('mut'):
            return None
        pl = rv['pl']
        if not all(e[0] in ('f', 'd') for e in pl['p']):
            return None
        if pl['p'] and pl['p'][0][0] == 'd' and depth > 0:
            inner = self._mut_ref_target(f, pl['l'], depth - 1)
            if inner is not None:
                return inner[0], list(inner[1]) + list(pl['p'][1:])
        return pl['l'], list(pl['p'])

    def outparam_defs(self, f):
        """local -> [('outp', bb, (callee id, callee def, sure), projection)]: field assignments a private function of the crate performs through a
        `&mut` parameter, seen from the caller as partial definitions of the place it lent (`adopt(&mut request.context)` writing `context.trace_context`)."""
        key = ('outp', f.id)
        if key in self.memo:
            return self.memo[key]
        out = {}
        self.memo[key] = out
        from . import cfg as _cfg
        for bb, t in f.calls():
            h = self.F.callee_fn(t)
            if h is None or h.id == f.id or h.coroutine or h.kind == 'Closure':
                continue
            for k, a in enumerate(t['args']):
                if a['k'] != 'move' or a['pl']['p'] or k + 1 > h.argc:
                    continue
                tgt = self._mut_ref_target(f, a['pl']['l'])
                if tgt is None:
                    continue
                exits = _cfg.exits(h)
                for d in self.defs(h).get(k + 1, []):
                    if d[0] != 'stmt' or len(d[3]) < 2 or d[3][0][0] != 'd' or not all(e[0] == 'f' for e in d[3][1:]):
                        continue
                    sure = bool(exits) and all(d[1] == x or _cfg.dominates(h, d[1], x) for x in exits)
                    out.setdefault(tgt[0], []).append(('outp', bb, (h.id, d, sure), list(tgt[1]) + list(d[3][1:])))
        return out

    # ------------------------------------------------------------------ terms
    def operand(self, f, op, at=None):
        k = op['k']
        if k in ('copy', 'move'):
            return self.place(f, op['pl'], at)
        if k == 'const':
            if op.get('ev'):
                return ('const', op['ty'], op['v'], op.get('fn'), op['ev'])
            return ('const', op['ty'], op['v'], op.get('fn'))
        return ('unknown', 'operand')

    def fold_int(self, t, depth=12):
        """integer value of a term built from integer literals with + - * (incl. the checked forms), else None"""
        if depth == 0:
            return None
        v = const_int(t)
        if v is not None:
            return v
        if t[0] == 'field' and t[2] in (0, '0') and t[1][0] == 'bin':
            return self.fold_int(t[1], depth - 1)
        if t[0] == 'bin':
            a, b = self.fold_int(t[2], depth - 1), self.fold_int(t[3], depth - 1)
            if a is None or b is None:
                return None
            op = t[1].replace('WithOverflow', '').replace('Unchecked', '')
            if op == 'Add':
                return a + b
            if op == 'Sub':
                return a - b
            if op == 'Mul':
                return a * b
            if op == 'Shl':
                return a << b
            return None
        if t[0] == 'cast':
            if t[1][0] == 'const' and len(t[1]) > 2 and str(t[1][2]).strip() in ('false', 'const false'):
                return 0
            if t[1][0] == 'const' and len(t[1]) > 2 and str(t[1][2]).strip() in ('true', 'const true'):
                return 1
            return self.fold_int(t[1], depth - 1)
        if t[0] == 'phi':
            vals = {self.fold_int(x, depth - 1) for x in t[1]}
            return vals.pop() if len(vals) == 1 else None
        return None

    def duration_ms(self, t):
        """milliseconds of a constant Duration term: a named constant (evaluated by rustc) or Duration::from_secs/millis(const)"""
        if t[0] == 'const' and len(t) > 4 and str(t[4]).startswith('bytes:') and 'Duration' in t[1]:
            raw = bytes.fromhex(t[4][6:])
            if len(raw) >= 12:
                return int.from_bytes(raw[0:8], 'little') * 1000 + int.from_bytes(raw[8:12], 'little') // 1000000
        rs = self.root(t)
        if len(rs) == 1:
            r = rs[0][0]
            if r[0] == 'const' and r is not t:
                return self.duration_ms(r)
            if self.is_call(r, 'Duration::from_secs', 'Duration::from_millis', 'Duration::from_micros', 'Duration::from_nanos'):
                n = self.fold_int(self.args_of(r)[0])
                if n is None:
                    return None
                name = self.call_name(self.unbound(r))
                return n * 1000 if name.endswith('from_secs') else (n if name.endswith('from_millis') else (n // 1000 if name.endswith('from_micros') else n // 1000000))
        return None

    def place(self, f, pl, at=None):
        base = self.local(f, pl['l'], pl['p'], at)
        return base

    def _project(self, t, proj):
        for e in proj:
            if e[0] == 'f':
                t = self._field(t, e[2] if not e[2].isdigit() else int(e[2]), e[1])
            elif e[0] == 'd':
                t = self._deref(t)
            elif e[0] == 'dc':
                t = self._variant(t, e[1])
            elif e[0] == 'i':
                t = ('field', t, '[]')
            else:
                t = ('field', t, '?')
        return t

    def _deref(self, t):
        if t[0] == 'ref':
            return t[1]
        if t[0] == 'phi':
            return self._phi([self._deref(x) for x in t[1]])
        return ('deref', t)

    def _variant(self, t, vname):
        if t[0] == 'agg':
            rv = self._agg_rv(t)
            if rv['variant'] == vname:
                return t
        if t[0] == 'phi':
            alts = [x for x in t[1] if not (x[0] == 'agg' and self._agg_rv(x)['variant'] not in (None, vname))]
            if alts:
                return self._phi([self._variant(x, vname) for x in alts])
        return ('variant', t, vname)

    def _variant_base(self, t):
        """strip field / variant projections: the value a payload was taken out of"""
        while t[0] in ('field', 'variant'):
            t = t[1]
        return t

    def _agg_rv(self, t):
        f = self.F.fns[t[1]]
        return f.blocks[t[2]]['stmts'][t[3]]['rv']

    def _field(self, t, name, idx=None):
        if t[0] == 'agg':
            rv = self._agg_rv(t)
            f = self.F.fns[t[1]]
            fields = rv['fields']
            ops = rv['ops']
            if rv['adt'] in ('tuple', 'array') or not fields:
                i = idx if idx is not None else (name if isinstance(name, int) else None)
                if i is not None and i < len(ops):
                    return self.operand(f, ops[i], at=t[2])
            else:
                if str(name) in fields:
                    return self.operand(f, ops[fields.index(str(name))], at=t[2])
                if isinstance(name, int) and idx is None:
                    idx = name
                if idx is not None and idx < len(ops):
                    return self.operand(f, ops[idx], at=t[2])
            return ('unknown', 'agg field %r' % (name,))
        if t[0] == 'phi':
            return self._phi([self._field(x, name, idx) for x in t[1]])
        if t[0] == 'with':
            for n, ov in t[2]:
                if n == str(name):
                    return ov
            return self._field(t[1], name, idx)
        if t[0] == 'bound' and t[1][0] == 'agg':
            sub = self._field(t[1], name, idx)
            return self.subst(sub, t[2], list(t[3]))
        return ('field', t, name)

    def _phi(self, ts):
        out = []
        for t in ts:
            if t[0] == 'phi':
                for x in t[1]:
                    if x not in out:
                        out.append(x)
            elif t not in out:
                out.append(t)
        if len(out) == 1:
            return out[0]
        return ('phi', tuple(out))

    def local(self, f, l, proj=(), at=None):
        proj = list(proj)
        # partial definitions of exactly this place take precedence (e.g. `_5.0 = x`)
        dl = self.defs(f).get(l, [])
        if proj:
            pref = [d for d in dl if d[3] and proj[:len(d[3])] == d[3]]
            whole = [d for d in dl if not d[3]]
            if pref and not whole and not (1 <= l <= f.argc):
                ts = []
                for d in pref:
                    ts.append(self._project(self._def_term(f, d), proj[len(d[3]):]))
                return self._phi(ts)
        base = self._local_whole(f, l)
        # field overwrites of (a sub-place of) a local that also has a whole definition:
        # `ctx.trace_context = x`, `(_1.ctx).trace_context = x`
        partial = [d for d in dl if d[0] == 'stmt' and d[3] and all(e[0] in ('f', 'd') for e in d[3])]
        partial = partial + self.outparam_defs(f).get(l, [])
        if not partial or at is None:
            return self._project(base, proj)
        from . import cfg as _cfg

        def fields(pr):
            return [e[2] for e in pr if e[0] == 'f']

        def wrap(term, prefix):
            sure, maybe, deeper = {}, {}, set()
            for d in partial:
                df = fields(d[3])
                if len(df) > len(prefix) and df[:len(prefix)] == prefix:
                    name = df[len(prefix)]
                    if len(df) == len(prefix) + 1:
                        if d[0] == 'outp':
                            # the callee's write takes effect after the call: not visible to reads in the call's own block (its arguments)
                            if d[1] == at or at not in _cfg.reachable(f, d[1]):
                                continue
                            dt = self._outp_term(f, d)
                            if dt is None:
                                continue
                            (sure if d[2][2] and _cfg.dominates(f, d[1], at) else maybe).setdefault(name, []).append(dt)
                        elif d[1] == at or _cfg.dominates(f, d[1], at):
                            sure.setdefault(name, []).append(self._def_term(f, d))
                        elif at in _cfg.reachable(f, d[1]):
                            maybe.setdefault(name, []).append(self._def_term(f, d))
                    else:
                        deeper.add(name)
            if not (sure or maybe or deeper):
                return term
            ovs = []
            for name in sorted(set(sure) | set(maybe) | deeper):
                if name in sure or name in maybe:
                    alts = list(sure.get(name, [])) + list(maybe.get(name, []))
                    if name not in sure:
                        alts.append(self._field(term, name))
                    ovs.append((name, self._phi(alts)))
                else:
                    sub = wrap(self._field(term, name), prefix + [name])
                    if sub[0] == 'with':
                        ovs.append((name, sub))
            if not ovs:
                return term
            return ('with', term, tuple(ovs))

        cur, prefix = wrap(base, []), []
        for e in proj:
            cur = self._project(cur, [e])
            if e[0] == 'f':
                prefix = prefix + [e[2]]
                cur = wrap(cur, prefix)
        return cur

    def _outp_term(self, f, d):
        key = ('outp-t', f.id, d[1], d[2][0], d[2][1][1], d[2][1][2])
        if key in self.memo:
            return self.memo[key]
        if key in self.inprog:
            return None
        self.inprog.add(key)
        try:
            h = self.F.fns[d[2][0]]
            args = tuple(self.call_args(('call', f.id, d[1])))
            t = self.subst(self._def_term(h, d[2][1]), h.id, list(args))
        finally:
            self.inprog.discard(key)
        self.memo[key] = t
        return t

    def _local_whole(self, f, l):
        key = (f.id, l)
        if key in self.memo:
            return self.memo[key]
        if key in self.inprog:
            return ('unknown', 'cycle')
        self.inprog.add(key)
        try:
            ts = []
            if 1 <= l <= f.argc:
                ts.append(('param', f.id, l))
            for d in self.defs(f).get(l, []):
                if d[3]:
                    continue  # partial assignment; handled by projection lookup
                ts.append(self._def_term(f, d))
            if not ts:
                # only partial defs (struct built field by field) or yields
                ts = [('local', f.id, l)]
            t = self._phi(ts)
        finally:
            self.inprog.discard(key)
        self.memo[key] = t
        return t

    def _def_term(self, f, d):
        if d[0] == 'call':
            return ('call', f.id, d[1])
        s = f.blocks[d[1]]['stmts'][d[2]]
        rv = s['rv']
        k = rv['k']
        if k == 'use':
            return self.operand(f, rv['op'], at=d[1])
        if k == 'ref':
            return ('ref', self.place(f, rv['pl'], at=d[1]))
        if k == 'agg':
            return ('agg', f.id, d[1], d[2])
        if k == 'discr':
            return ('discr', self.place(f, rv['pl']))
        if k == 'bin':
            return ('bin', rv['op'], self.operand(f, rv['a']), self.operand(f, rv['b']))
        if k == 'un':
            return ('un', rv['op'], self.operand(f, rv['a']))
        if k == 'cast':
            return ('cast', self.operand(f, rv['op']), rv['ty'])
        return ('unknown', rv.get('s', k))

    # ------------------------------------------------------------------ call details
    def call_term(self, t):
        """the MIR terminator dict of a ('call', fn, bb) term"""
        return self.F.fns[t[1]].blocks[t[2]]['term']

    def call_args(self, t):
        f = self.F.fns[t[1]]
        return [self.operand(f, a, at=t[2]) for a in self.call_term(t)['args']]

    def call_name(self, t):
        c = self.call_term(t).get('callee')
        return strip_generics(c) if c else None

    def call_site(self, t):
        f = self.F.fns[t[1]]
        return f.loc(self.call_term(t))

    # ------------------------------------------------------------------ closures
    def closure_sites(self):
        if self._closure_sites is None:
            m = {}
            for f in self.F.fns.values():
                for i, j, s in f.stmts():
                    rv = s['rv']
                    if rv['k'] == 'agg' and rv['adt'] in ('closure', 'coroutine', 'coroutine_closure') and rv.get('adt_id'):
                        m.setdefault(rv['adt_id'], []).append(('agg', f.id, i, j))
            self._closure_sites = m
        return self._closure_sites

    def upvar(self, closure_fn_id, name):
        """term (in the parent body) captured as upvar `name` by the closure, or None"""
        sites = self.closure_sites().get(closure_fn_id, [])
        ts = []
        for a in sites:
            rv = self._agg_rv(a)
            if name in rv['fields']:
                pf = self.F.fns[a[1]]
                ts.append(self.operand(pf, rv['ops'][rv['fields'].index(name)]))
        if not ts:
            return None
        return self._phi(ts)

    # ------------------------------------------------------------------ normalisation
    def expand(self, t, depth=None, _seen=None):
        """Rewrites a term so that local accessor calls are replaced by what they return, closure
        upvars by what was captured, and parameters of async bodies by the enclosing fn's args.
        Only the *spine* (receiver chain) is expanded; call arguments are left for on-demand use."""
        if depth is None:
            depth = self.inline_depth
        k = t[0]
        if k in ('field',):
            b = self.expand(t[1], depth)
            if b[0] in ('agg', 'phi'):
                return self.expand(self._field(b, t[2]), depth)
            # pin-project: `.project().x` is `x` of the projected struct
            return ('field', b, t[2])
        if k == 'variant':
            b = self.expand(t[1], depth)
            return self._variant(b, t[2]) if b[0] in ('agg', 'phi') else ('variant', b, t[2])
        if k == 'deref':
            return self._deref(self.expand(t[1], depth))
        if k == 'ref':
            return ('ref', self.expand(t[1], depth))
        if k == 'phi':
            return self._phi([self.expand(x, depth) for x in t[1]])
        if k == 'param':
            f = self.F.fns[t[1]]
            if f.kind == 'Closure' and t[2] == 1:
                return t
            return t
        if k == 'call' and depth > 0:
            term = self.call_term(t)
            callee = self.F.callee_fn(term)
            name = self.call_name(t)
            if callee is not None and name not in TRANSPARENT and not callee.coroutine:
                ret = self._local_whole(callee, 0)
                args = self.call_args(t)
                sub = self.subst(ret, callee.id, args)
                if not self._mentions_unknown_local(sub):
                    return self.expand(sub, depth - 1)
        return t

    def _mentions_unknown_local(self, t):
        return False

    def subst(self, t, callee_id, args):
        k = t[0]
        if k == 'param' and t[1] == callee_id:
            return args[t[2] - 1] if t[2] - 1 < len(args) else ('unknown', 'arity')
        if k in ('field',):
            return self._field(self.subst(t[1], callee_id, args), t[2])
        if k == 'variant':
            return self._variant(self.subst(t[1], callee_id, args), t[2])
        if k == 'deref':
            return self._deref(self.subst(t[1], callee_id, args))
        if k in ('ref', 'discr'):
            return (k, self.subst(t[1], callee_id, args))
        if k == 'phi':
            return self._phi([self.subst(x, callee_id, args) for x in t[1]])
        if k == 'bin':
            return ('bin', t[1], self.subst(t[2], callee_id, args), self.subst(t[3], callee_id, args))
        if k == 'un':
            return ('un', t[1], self.subst(t[2], callee_id, args))
        if k == 'cast':
            return ('cast', self.subst(t[1], callee_id, args), t[2])
        if k in ('call', 'agg'):
            # a call / aggregate inside the callee whose operands mention the callee's params: keep
            # the site, remember the binding so that args_of() / field selection can substitute on demand
            return ('bound', t, callee_id, tuple(args))
        if k == 'with':
            return ('with', self.subst(t[1], callee_id, args), tuple((n, self.subst(v, callee_id, args)) for n, v in t[2]))
        if k == 'bound':
            # a site of a callee inlined one level further down: its binding mentions this callee's parameters
            return ('bound', t[1], t[2], tuple(self.subst(a, callee_id, args) for a in t[3]))
        return t

    def args_of(self, t):
        """argument terms of a call term, honouring bindings introduced by inlining"""
        if t[0] == 'bound':
            inner = t[1]
            return [self.subst(a, t[2], list(t[3])) for a in self.args_of(inner)]
        return self.call_args(t)

    def is_call(self, t, *names):
        """is t (possibly under inlining bindings) the result of a call to one of the named callees?"""
        t = self.unbound(t)
        return t[0] == 'call' and callee_is(self.call_term(t), *names)

    def unbound(self, t):
        while t[0] == 'bound':
            t = t[1]
        return t

    def resolve_env(self, t):
        """replace closure-environment / async-body parameter references by the captured terms"""
        k = t[0]
        if k == 'field':
            b = t[1]
            bb = b[1] if b[0] == 'deref' else b
            if bb[0] == 'param' and bb[2] == 1:
                f = self.F.fns[bb[1]]
                if f.kind == 'Closure' and isinstance(t[2], str):
                    u = self.upvar(f.id, t[2])
                    if u is not None:
                        return self.resolve_env(u)
            nb = self.resolve_env(b)
            if nb is not b:
                return self._field(nb, t[2])
            return t
        if k == 'variant':
            nb = self.resolve_env(t[1])
            return self._variant(nb, t[2]) if nb is not t[1] else t
        if k == 'deref':
            nb = self.resolve_env(t[1])
            return self._deref(nb) if nb is not t[1] else t
        if k == 'ref':
            nb = self.resolve_env(t[1])
            return ('ref', nb) if nb is not t[1] else t
        if k == 'phi':
            return self._phi([self.resolve_env(x) for x in t[1]])
        return t

    def following(self, callers):
        """context manager: inside it, root() follows parameters into call sites located in the given bodies by default (used by rules that start at a
        write site and must reach the place where the value was obtained, however many helper functions lie in between)"""
        import contextlib

        @contextlib.contextmanager
        def cm():
            old = (self.default_tp, self.default_callers)
            self.default_tp, self.default_callers = True, frozenset(callers)
            try:
                yield self
            finally:
                self.default_tp, self.default_callers = old
        return cm()

    def root(self, t, depth=48, through_params=None, stop_tags=(), inline=True, callers=None):
        """Peel projections and transparent calls.  Returns a list of (root, path) alternatives
        (several for phi).  path is a tuple of steps from the root outwards.  With through_params,
        a parameter is followed into the callers' arguments (context-insensitively)."""
        out = []
        if through_params is None:
            through_params = self.default_tp
            if callers is None and through_params:
                callers = self.default_callers
        old = (self.through_params, self.stop_tags, self.inline, self.callers)
        self.through_params = through_params
        self.stop_tags = set(stop_tags)
        self.inline = inline
        self.callers = frozenset(callers) if callers is not None else None   # restrict parameter following to call sites inside these bodies
        try:
            self._root(t, (), depth, out)
        finally:
            self.through_params, self.stop_tags, self.inline, self.callers = old
        res = []
        for x in out:
            if x not in res:
                res.append(x)
        return res

    def _root(self, t, path, depth, out):
        if depth <= 0:
            out.append((t, path))
            return
        t = self.resolve_env(t)
        k = t[0]
        if k == 'field':
            self._root(t[1], (('f', t[2]),) + path, depth, out)
            return
        if k == 'variant':
            self._root(t[1], (('v', t[2]),) + path, depth, out)
            return
        if k in ('deref', 'ref'):
            self._root(t[1], path, depth, out)
            return
        if k == 'cast':
            self._root(t[1], (('t', 'cast:' + str(t[2])),) + path, depth, out)
            return
        if k == 'phi':
            for x in t[1]:
                self._root(x, path, depth - 1, out)
            return
        if k in ('call', 'bound') and self.unbound(t)[0] == 'call':
            name = self.call_name(self.unbound(t))
            tag = None
            if name:
                for n, tg in TRANSPARENT.items():
                    if name == n or name.endswith('::' + n):
                        tag = tg
                        break
                if tag is None and (name.endswith('::project') or name.endswith('::project_ref')):
                    tag = 'project'
                if tag in self.stop_tags:
                    tag = None
                    out.append((t, path))
                    return
            if tag is None and name and 'mapping' not in self.stop_tags and name.split('::')[-1] in ('map_or_else', 'map_or') \
                    and any(name.endswith(x) for x in ('Option::map_or_else', 'Option::map_or', 'Result::map_or_else', 'Result::map_or')):
                # `recv.map_or_else(default_fn, |x| ..)` / `recv.map_or(default, |x| ..)`: the result is either the default (a value, or what a crate-local
                # function / closure without use of its argument returns) or what the closure returns for the receiver's payload
                args = self.args_of(t)
                if len(args) == 3:
                    steps = (('v', 'Some'), ('f', 0)) if 'Option::' in name else (('v', 'Ok'), ('f', 0))
                    recv = args[0]
                    for st in steps:
                        recv = self._variant(recv, st[1]) if st[0] == 'v' else self._field(recv, st[1])

                    def fn_body(a):
                        for cr, _cp in self._roots_nested(a):
                            cu = self.unbound(cr)
                            if cu[0] == 'agg' and self._agg_rv(cu)['adt'] == 'closure':
                                return self.F.fns.get(self._agg_rv(cu)['adt_id']), True
                            if cr[0] == 'const' and len(cr) > 3:
                                ct = self.call_term(self.unbound(t))
                                for op in ct['args']:
                                    if op.get('k') == 'const' and op.get('fn_id') in self.F.fns and op.get('fn') == cr[3]:
                                        return self.F.fns[op['fn_id']], False
                        return None, False
                    mbody, _ = fn_body(args[2])
                    handled = mbody is not None
                    if handled:
                        if name.endswith('map_or'):
                            self._root(args[1], path, depth - 1, out)
                        else:
                            dbody, is_clo = fn_body(args[1])
                            if dbody is not None:
                                self._root(self.subst(self._local_whole(dbody, 0), dbody.id, [('param', dbody.id, 1)] if is_clo else []), path, depth - 1, out)
                            else:
                                handled = False
                    if handled:
                        self._root(self.subst(self._local_whole(mbody, 0), mbody.id, [('param', mbody.id, 1), recv]), path, depth - 1, out)
                        return
            if tag is None and name and 'mapping' not in self.stop_tags:
                # value-mapping combinators with a closure: the payload of the result is what the closure returns (with the closure's parameter bound to
                # the receiver's payload, in this calling context); the other variant passes through from the receiver
                mp = None
                for suf, spec in MAPPING.items():
                    if name == suf or name.endswith('::' + suf):
                        mp = spec
                        break
                if mp is not None and path:
                    on_steps, param_steps, passes = mp
                    args = self.args_of(t)

                    def consume(pth, steps):
                        # match value-level steps at the front of the path, carrying transparent steps over to the remainder
                        carried, k2, i2 = [], 0, 0
                        while k2 < len(steps) and i2 < len(pth):
                            if pth[i2][0] == 't':
                                carried.append(pth[i2])
                            elif pth[i2] == steps[k2]:
                                k2 += 1
                            else:
                                return None
                            i2 += 1
                        if k2 < len(steps):
                            return None
                        return tuple(carried) + tuple(pth[i2:])

                    def first_value_step(pth):
                        for st in pth:
                            if st[0] != 't':
                                return st
                        return None

                    def payload_of(recv):
                        for st in param_steps:
                            recv = self._variant(recv, st[1]) if st[0] == 'v' else self._field(recv, st[1])
                        return recv
                    body, ctor = None, None
                    if len(args) > 1:
                        for cr, _cp in self._roots_nested(args[1]):
                            cu = self.unbound(cr)
                            if cu[0] == 'agg' and self._agg_rv(cu)['adt'] == 'closure':
                                body = self.F.fns.get(self._agg_rv(cu)['adt_id'])
                            if cr[0] == 'const' and len(cr) > 3 and cr[3] and str(cr[3]).split('::')[-1] in ('Ok', 'Err', 'Some', 'Ready'):
                                ctor = str(cr[3]).split('::')[-1]
                    if passes and first_value_step(path) == passes and (body is not None or ctor is not None):
                        self._root(args[0], path, depth - 1, out)
                        return
                    if body is None and ctor is not None and on_steps:
                        # a variant constructor used as the mapping function: `opt.map(Ok)`
                        rest = consume(path, on_steps + (('v', ctor), ('f', 0)))
                        if rest is not None:
                            self._root(payload_of(args[0]), rest, depth - 1, out)
                            return
                    if body is not None:
                        ret = self.subst(self._local_whole(body, 0), body.id, [('param', body.id, 1), payload_of(args[0])])
                        rest = consume(path, on_steps)
                        if rest is not None and (on_steps or first_value_step(path) != passes):
                            self._root(ret, rest, depth - 1, out)
                            return
            if tag == 'try':
                args = self.args_of(t)
                if args and len(path) >= 2 and path[0][0] == 'v' and path[1] == ('f', 0):
                    which, rest = path[0][1], path[2:]
                    cat = self._carrier(self.unbound(t))
                    if which == 'Continue':
                        newpath = (('t', '?ok'),) + self._insert_ok(cat, rest)
                    else:
                        newpath = (('t', '?err'),) + rest
                    self._root(args[0], newpath, depth - 1, out)
                    return
            if tag == 'residual' and path and path[0] == ('t', '?ok'):
                return  # infeasible: a residual never takes the Continue edge of a later `?`
            if tag == 'residual':
                # from_residual builds an error value (inside Ready/Some wrappers): its Ok side does not exist
                infeasible = False
                rty = (self.call_term(self.unbound(t)).get('self_ty') or '')
                if rty.split('<')[0].endswith('Option'):
                    # `?` inside a function returning Option: the residual is None
                    for st in path:
                        if st[0] == 'v':
                            infeasible = st[1] == 'Some'
                            break
                for st in path:
                    if infeasible:
                        break
                    if st in (('v', 'Ok'), ('v', 'Continue'), ('v', 'Pending'), ('v', 'None')):
                        infeasible = True
                        break
                    if st in (('v', 'Err'), ('v', 'Break')) or st[0] == 't':
                        break
                if infeasible:
                    return
            if tag is not None:
                args = self.args_of(t)
                if args:
                    self._root(args[0], (('t', tag),) + path, depth - 1, out)
                    if tag == 'unwrap' and len(args) > 1 and (name.endswith('unwrap_or_else') or name.endswith('unwrap_or')):
                        # the fallback value is an alternative source
                        if name.endswith('unwrap_or'):
                            self._root(args[1], (('t', 'else'),) + path, depth - 1, out)
                        else:
                            done = False
                            for cr, cp in self.root(args[1], depth=8) if False else self._roots_nested(args[1]):
                                cr = self.unbound(cr)
                                if cr[0] == 'agg' and self._agg_rv(cr)['adt'] == 'closure':
                                    body = self.F.fns.get(self._agg_rv(cr)['adt_id'])
                                    if body is not None:
                                        self._root(self._local_whole(body, 0), (('t', 'else'),) + path, depth - 1, out)
                                        done = True
                            if not done:
                                out.append((('unknown', 'fallback of ' + name), path))
                    elif tag == 'unwrap' and name.endswith('unwrap_or_default'):
                        out.append((('const', '?', 'Default::default()', None), path))
                    return
            if t[0] == 'call':
                if self.inline:
                    e = self.expand(t, 1)
                    if e != t:
                        self._root(e, path, depth - 1, out)
                        return
            elif self.inline:
                inner = self.unbound(t)
                term = self.call_term(inner)
                callee = self.F.callee_fn(term)
                if callee is not None and not callee.coroutine:
                    ret = self._local_whole(callee, 0)
                    sub = self.subst(ret, callee.id, self.args_of(t))
                    self._root(sub, path, depth - 1, out)
                    return
        LOOK = ('?ok', 'try', 'residual', 'map_err', 'conv', 'pin', 'deref', 'asref', 'clone', 'else', 'unwrap', 'box', 'project')
        if k == 'with':
            if path and path[0][0] == 'f':
                self._root(self._field(t, path[0][1]), path[1:], depth - 1, out)
                return
            out.append((t, path))
            return
        if (k == 'agg' or (k == 'bound' and t[1][0] == 'agg')) and path:
            inner = t if k == 'agg' else t[1]
            bind = (lambda x: x) if k == 'agg' else (lambda x: self.subst(x, t[2], list(t[3])))
            rv = self._agg_rv(inner)
            step = path[0]
            fn_ = self.F.fns[inner[1]]
            if step[0] == 'v':
                if rv['variant'] is not None and rv['variant'] != step[1]:
                    return  # infeasible: this definition builds another variant
                self._root(t, path[1:], depth - 1, out) if len(path) > 1 else out.append((t, ()))
                return
            if step[0] == 'f':
                sub = self._field(inner, step[1])
                if sub[0] != 'unknown':
                    self._root(bind(sub), path[1:], depth - 1, out)
                    return
            if step == ('t', '?err'):
                v = rv['variant']
                if v in ('Pending', 'Ok', 'None', 'Continue'):
                    return  # infeasible: no error inside
                if v in ('Ready', 'Some') and rv['ops']:
                    self._root(bind(self.operand(fn_, rv['ops'][0], at=inner[2])), path, depth - 1, out)
                    return
                if v == 'Err' and rv['ops']:
                    self._root(bind(self.operand(fn_, rv['ops'][0], at=inner[2])), (('t', 'errval'),) + path[1:], depth - 1, out)
                    return
            if step[0] == 't' and step[1] in LOOK:
                # structure-preserving wrappers over an aggregate: look through
                self._root(t, path[1:], depth - 1, out) if len(path) > 1 else out.append((t, ()))
                return
        if k == 'param' and self.through_params and depth > 0 and (self.through_params is True or self.F.fns[t[1]].kind == 'Closure' or (callable(self.through_params) and self.through_params(self.F.fns[t[1]]))):
            srcs = self.param_sources(t)
            if srcs:
                for (src, steps) in srcs:
                    self._root(src, steps + path, depth - 1, out)
                return
        out.append((t, path))

    # ------------------------------------------------------------------ parameters -> caller values
    COMBINATORS = {
        # callee suffix -> (which closure parameter, steps applied to the combinator's receiver)
        'Poll::map': (2, (('v', 'Ready'), ('f', 0))),
        'Option::map': (2, (('v', 'Some'), ('f', 0))),
        'Option::and_then': (2, (('v', 'Some'), ('f', 0))),
        'Option::filter': (2, (('v', 'Some'), ('f', 0))),
        'Option::is_some_and': (2, (('v', 'Some'), ('f', 0))),
        'Result::map': (2, (('v', 'Ok'), ('f', 0))),
        'Result::and_then': (2, (('v', 'Ok'), ('f', 0))),
        'Result::map_err': (2, (('v', 'Err'), ('f', 0))),
        'Result::unwrap_or_else': (2, (('v', 'Err'), ('f', 0))),
        'Result::or_else': (2, (('v', 'Err'), ('f', 0))),
    }

    def param_sources(self, t):
        """values (terms in the callers' bodies) that flow into parameter t = ('param', fn, n):
        for a named fn, the arguments at every resolved call site in the crate; for a closure, the
        payload handed over by a known std combinator the closure is passed to."""
        key = ('psrc', self.callers) + t
        if key in self.memo:
            return self.memo[key]
        self.memo[key] = []  # recursion guard
        f = self.F.fns[t[1]]
        n = t[2]
        out = []
        if f.kind == 'Closure':
            if n >= 2:
                for a in self.closure_sites().get(f.id, []):
                    pf = self.F.fns[a[1]]
                    # where does the closure value go?
                    dst = pf.blocks[a[2]]['stmts'][a[3]]['pl']
                    if dst['p']:
                        continue
                    for bb, ct in pf.calls():
                        for ai, arg in enumerate(ct['args']):
                            if arg['k'] in ('move', 'copy') and arg['pl']['l'] == dst['l'] and not arg['pl']['p'] and ai >= 1:
                                cname = strip_generics(ct['callee'] or '')
                                recv = self.operand(pf, ct['args'][0])
                                steps = None
                                if cname.endswith('Poll::map_ok') or cname.endswith('Poll::map_err'):
                                    tys = ct.get('arg_tys') or ['']
                                    from .facts import ty_head
                                    h, aa = ty_head(tys[0])
                                    inner = ty_head(aa[0])[0].split('::')[-1] if aa else ''
                                    leaf = ('v', 'Ok') if cname.endswith('map_ok') else ('v', 'Err')
                                    if inner == 'Result':
                                        steps = (('v', 'Ready'), ('f', 0), leaf, ('f', 0))
                                    elif inner == 'Option':
                                        steps = (('v', 'Ready'), ('f', 0), ('v', 'Some'), ('f', 0), leaf, ('f', 0))
                                else:
                                    for suf, (pn, st) in self.COMBINATORS.items():
                                        if cname.endswith(suf) and pn == n:
                                            steps = st
                                if steps is not None and n == 2:
                                    out.append((recv, steps))
        else:
            for g in self.F.fns.values():
                if self.callers is not None and g.id not in self.callers:
                    continue
                for bb, ct in g.calls():
                    if self.F.callee_fn(ct) is f and n - 1 < len(ct['args']):
                        out.append((self.operand(g, ct['args'][n - 1]), ()))
        self.memo[key] = out
        return out

    def _roots_nested(self, t):
        """root() usable from inside _root (keeps the outer accumulation state intact)"""
        out = []
        self._root(t, (), 16, out)
        return out

    def _carrier(self, t):
        term = self.call_term(t)
        tys = term.get('arg_tys') or []
        ty = tys[0] if tys else ''
        from .facts import ty_head
        h, a = ty_head(ty)
        hs = h.split('::')[-1]
        if hs == 'Result':
            return 'R'
        if hs == 'Option':
            return 'O'
        if hs == 'Poll' and a:
            h2, a2 = ty_head(a[0])
            if h2.split('::')[-1] == 'Result':
                return 'PR'
            if h2.split('::')[-1] == 'Option' and a2 and ty_head(a2[0])[0].split('::')[-1] == 'Result':
                return 'POR'
        return '?'

    @staticmethod
    def _insert_ok(cat, rest):
        R, F0, S, OK = ('v', 'Ready'), ('f', 0), ('v', 'Some'), ('v', 'Ok')
        if cat == 'R':
            return (OK, F0) + rest
        if cat == 'O':
            return (S, F0) + rest
        if cat == 'PR' and rest[:2] == (R, F0):
            return rest[:2] + (OK, F0) + rest[2:]
        if cat == 'POR' and rest[:4] == (R, F0, S, F0):
            return rest[:4] + (OK, F0) + rest[4:]
        return rest

    # ------------------------------------------------------------------ convenience
    def fpath(self, path):
        """field-only view of a path (drops variant / transparent steps)"""
        return tuple(s[1] for s in path if s[0] == 'f' and not isinstance(s[1], int))

    def describe(self, t, depth=3):
        k = t[0]
        if depth == 0:
            return '…'
        if k == 'param':
            f = self.F.fns[t[1]]
            return 'arg%d(%s)' % (t[2], f.local_name(t[2]) or '_%d' % t[2])
        if k == 'const':
            return t[3] or t[2]
        if k == 'call':
            return '%s()@%s' % (self.call_name(t), self.call_site(t))
        if k == 'bound':
            return self.describe(t[1], depth)
        if k == 'agg':
            rv = self._agg_rv(t)
            return '%s::%s{..}' % (rv['adt'], rv['variant'])
        if k == 'field':
            return '%s.%s' % (self.describe(t[1], depth - 1), t[2])
        if k == 'variant':
            return '(%s as %s)' % (self.describe(t[1], depth - 1), t[2])
        if k in ('deref', 'ref'):
            return ('*' if k == 'deref' else '&') + self.describe(t[1], depth)
        if k == 'phi':
            return 'phi(' + ', '.join(self.describe(x, depth - 1) for x in t[1]) + ')'
        if k == 'bin':
            return '(%s %s %s)' % (self.describe(t[2], depth - 1), t[1], self.describe(t[3], depth - 1))
        if k == 'local':
            f = self.F.fns[t[1]]
            return f.local_name(t[2]) or '_%d' % t[2]
        if k == 'with':
            return '%s{%s}' % (self.describe(t[1], depth - 1), ','.join(n for n, _ in t[2]))
        return repr(t)[:80]
