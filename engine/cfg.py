"""E-CFG: per-body control-flow queries over non-cleanup blocks."""


def reachable(f, start, avoid=(), include_start=True):
    """blocks reachable from `start` (a block or iterable of blocks) without entering `avoid`."""
    avoid = set(avoid)
    if isinstance(start, int):
        start = [start]
    seen = set()
    work = []
    for s in start:
        if include_start:
            if s not in avoid:
                seen.add(s)
                work.append(s)
        else:
            for x in f.succ(s):
                if x not in avoid and x not in seen:
                    seen.add(x)
                    work.append(x)
    while work:
        b = work.pop()
        for x in f.succ(b):
            if x not in avoid and x not in seen:
                seen.add(x)
                work.append(x)
    return seen


def exits(f, kinds=('return',)):
    return [i for i, b in enumerate(f.blocks) if not b['cleanup'] and b['term']['k'] in kinds]


def dominators(f):
    n = len(f.blocks)
    nodes = sorted(reachable(f, 0))
    dom = {b: set(nodes) for b in nodes}
    dom[0] = {0}
    pred = f.preds()
    changed = True
    while changed:
        changed = False
        for b in nodes:
            if b == 0:
                continue
            ps = [p for p in pred[b] if p in dom]
            if not ps:
                continue
            new = set.intersection(*[dom[p] for p in ps]) | {b}
            if new != dom[b]:
                dom[b] = new
                changed = True
    return dom


def dominates(f, a, b, _cache={}):
    key = id(f)
    if key not in _cache:
        _cache[key] = dominators(f)
    d = _cache[key]
    return b in d and a in d[b]


def all_paths_pass(f, start, targets, through):
    """True iff every path from `start` to any block in `targets` passes through a block in `through`
    (start itself counts if it is in `through`)."""
    through = set(through)
    if start in through:
        return True
    r = reachable(f, start, avoid=through)
    return not (r & set(targets))


def on_cycle(f, b):
    return b in reachable(f, b, include_start=False)


def edges_to(f, b):
    return f.preds()[b]


def switch_edge_blocks(f, bb, value):
    """target block of a switchInt in bb for `value` (or the otherwise block)."""
    t = f.blocks[bb]['term']
    assert t['k'] == 'switch'
    for v, x in t['targets']:
        if v == value:
            return x
    return t['otherwise']
