"""Helpers for coroutine bodies (mir_built keeps `.await` as an explicit poll loop with a yield)."""
from .facts import callee_is
from . import cfg


def awaits(P, f):
    """All `.await` sites of body f: dict(poll_bb, future_roots, ready_bb, pending_bb, result_local)."""
    out = []
    for bb, t in f.calls():
        if not callee_is(t, 'Future::poll'):
            continue
        if 'Desugaring(Await)' not in t.get('expn', ()):
            continue
        roots = P.root(P.operand(f, t['args'][0]))
        nxt = t['target']
        sw = f.blocks[nxt]['term'] if nxt is not None else None
        ready = pending = None
        if sw and sw['k'] == 'switch':
            m = dict((v, x) for v, x in sw['targets'])
            ready, pending = m.get(0), m.get(1)
        out.append({'poll_bb': bb, 'roots': roots, 'ready_bb': ready, 'pending_bb': pending, 'dest': t['dest']['l'], 'term': t})
    return out


def await_of_call(P, f, call_bb):
    """the await record whose awaited future is produced by the call at call_bb (or None)"""
    for a in awaits(P, f):
        if any(r == ('call', f.id, call_bb) for r, _ in a['roots']):
            return a
    return None


def base_local(f, P, op, through_named=False):
    """Follows an operand back through reborrows and compiler temporaries to the MIR local it
    denotes (a user variable or the first local with a non-copy definition).  Returns local or None."""
    if op['k'] not in ('copy', 'move'):
        return None
    pl = op['pl']
    seen = set()
    while True:
        l = pl['l']
        proj = [e for e in pl['p'] if e[0] != 'd']
        if proj:
            return None  # a field of something: not a plain local
        if l in seen:
            return l
        seen.add(l)
        if f.local_name(l) is not None and not through_named:
            return l
        if 1 <= l <= f.argc:
            return l
        defs = [d for d in P.defs(f).get(l, []) if not d[3]]
        if len(defs) != 1 or defs[0][0] != 'stmt':
            return l
        s = f.blocks[defs[0][1]]['stmts'][defs[0][2]]
        rv = s['rv']
        if rv['k'] == 'ref':
            pl = rv['pl']
            continue
        if rv['k'] == 'use' and rv['op']['k'] in ('copy', 'move'):
            pl = rv['op']['pl']
            continue
        return l
